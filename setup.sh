#!/bin/sh
# Offline build of the verification machinery: native replay binary (dev + release),
# validation of the harness-side reference definitions against the real build, and a
# warm-up compile of the Kani harness crate against /repo's working tree.
set -e
cd "$(dirname "$0")"
export CARGO_NET_OFFLINE=true
mkdir -p .build evidence replays
(cd replay && cargo build --offline --target-dir ../.build/replay && cargo build --offline --release --target-dir ../.build/replay)
.build/replay/debug/mzreplay refcheck
.build/replay/release/mzreplay refcheck
python3 driver/gen.py
(cd kani && cargo kani --target-dir ../.build/kani -Z stubbing -Z unstable-options --only-codegen --no-assertion-reach-checks --output-format terse >/dev/null 2>../.build/kani-warmup.log) || { tail -50 .build/kani-warmup.log; exit 1; }
echo "setup ok"
