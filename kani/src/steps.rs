//! S tier: one real decode call from an injected automaton state (terminal states only), and
//! the parameter check from any state.
use miniz_oxide::inflate::core as mzcore;
use miniz_oxide::inflate::core::inflate_flags::*;
use miniz_oxide::inflate::core::{decompress_with_limit, DecompressorOxide};
use miniz_oxide::inflate::TINFLStatus;

fn valid_adler(s: u32) -> bool {
    (s & 0xFFFF) < 65521 && (s >> 16) < 65521
}

/// arbitrary decoder (all arrays and registers symbolic) placed in automaton state `sid`,
/// constrained only by the representation invariant every reachable decoder satisfies.
fn injected(sid: u8) -> DecompressorOxide {
    let mut d = DecompressorOxide::verif_havoc();
    let mut regs = d.verif_regs();
    regs.state = sid;
    kani::assume(regs.num_bits <= 61);
    kani::assume(regs.bit_buf < (1u64 << regs.num_bits));
    kani::assume(valid_adler(regs.check_adler32));
    d.verif_set_regs(&regs);
    d
}

/// C04/C05: a failure state is absorbing: Failed with nothing consumed or written, decoder and
/// buffer untouched, for any input, flags, position and budget. DoneForever likewise repeats.
fn terminal(sid: u8) {
    let mut d = injected(sid);
    let input: [u8; 3] = kani::any();
    let n: usize = kani::any();
    kani::assume(n <= 3);
    let mut out: [u8; 4] = kani::any();
    let out0 = out;
    let pos: usize = kani::any();
    let budget: usize = kani::any();
    let flags: u32 = kani::any();
    kani::assume(flags < 256);
    kani::assume(pos <= 4);
    let before = d.verif_regs();
    let r = decompress_with_limit(&mut d, &input[..n], &mut out, pos, budget, flags);
    assert!(r.1 == 0 && r.2 == 0);
    if sid >= mzcore::verif::FIRST_FAILURE_STATE {
        assert!(r.0 == TINFLStatus::Failed);
    } else {
        let checks = flags & TINFL_FLAG_PARSE_ZLIB_HEADER != 0 && flags & TINFL_FLAG_IGNORE_ADLER32 == 0;
        if checks && before.check_adler32 != before.z_adler32 {
            assert!(r.0 == TINFLStatus::Adler32Mismatch);
        } else {
            assert!(r.0 == TINFLStatus::Done);
        }
    }
    let after = d.verif_regs();
    assert!(after.state == sid);
    assert!(after.num_bits == before.num_bits && after.bit_buf == before.bit_buf);
    assert!(after.check_adler32 == before.check_adler32 && after.z_adler32 == before.z_adler32);
    assert!(after.counter == before.counter && after.dist == before.dist && after.num_extra == before.num_extra);
    assert!(out[0] == out0[0] && out[1] == out0[1] && out[2] == out0[2] && out[3] == out0[3]);
    kani::cover!(n == 3 && pos == 0);
    kani::cover!(flags & TINFL_FLAG_USING_NON_WRAPPING_OUTPUT_BUF == 0);
}

macro_rules! terminal_harness {
    ($name:ident, $sid:expr) => {
        #[kani::proof]
        #[kani::unwind(8)]
        fn $name() {
            terminal($sid)
        }
    };
}
terminal_harness!(s_done_forever, 24);
terminal_harness!(s_block_type_unexpected, 25);
terminal_harness!(s_bad_code_size_sum, 26);
terminal_harness!(s_bad_dist_or_literal_table_length, 27);
terminal_harness!(s_bad_total_symbols, 28);
terminal_harness!(s_bad_zlib_header, 29);
terminal_harness!(s_distance_out_of_bounds, 30);
terminal_harness!(s_bad_raw_length, 31);
terminal_harness!(s_bad_code_size_dist_prev_lookup, 32);
terminal_harness!(s_invalid_litlen, 33);
terminal_harness!(s_invalid_dist, 34);

fn regs_equal(a: &mzcore::verif::Regs, b: &mzcore::verif::Regs) -> bool {
    a.state == b.state
        && a.num_bits == b.num_bits
        && a.z_header0 == b.z_header0
        && a.z_header1 == b.z_header1
        && a.z_adler32 == b.z_adler32
        && a.finish == b.finish
        && a.block_type == b.block_type
        && a.check_adler32 == b.check_adler32
        && a.dist == b.dist
        && a.counter == b.counter
        && a.num_extra == b.num_extra
        && a.table_sizes[0] == b.table_sizes[0]
        && a.table_sizes[1] == b.table_sizes[1]
        && a.table_sizes[2] == b.table_sizes[2]
        && a.bit_buf == b.bit_buf
        && a.raw_header[0] == b.raw_header[0]
        && a.raw_header[1] == b.raw_header[1]
        && a.raw_header[2] == b.raw_header[2]
        && a.raw_header[3] == b.raw_header[3]
}

/// C05: unusable buffer geometry (ring size not a power of two, or start position past the end)
/// is refused with BadParam, nothing consumed/written, decoder state and buffer untouched -
/// from any automaton state. The slice length is concrete per call (0..=8 enumerated across the
/// family), position / budget / flags symbolic, geometry assumed bad.
fn bad_param(sid: u8, l: usize) {
    let mut d = injected(sid);
    let input: [u8; 2] = kani::any();
    let mut out: [u8; 8] = kani::any();
    let out0 = out;
    let flags: u32 = kani::any();
    kani::assume(flags < 256);
    let budget: usize = kani::any();
    let pos: usize = kani::any();
    let before = d.verif_regs();
    let flat = flags & TINFL_FLAG_USING_NON_WRAPPING_OUTPUT_BUF != 0;
    let pow2 = l == 0 || l == 1 || l == 2 || l == 4 || l == 8;
    kani::assume(pos > l || (!flat && !pow2));
    let r = decompress_with_limit(&mut d, &input, &mut out[..l], pos, budget, flags);
    assert!(r.0 == TINFLStatus::BadParam && r.1 == 0 && r.2 == 0);
    assert!(regs_equal(&d.verif_regs(), &before));
    let j: usize = kani::any();
    kani::assume(j < 8);
    assert!(out[j] == out0[j]);
    kani::cover!(pos == l + 1);
    kani::cover!(flat);
}

macro_rules! bad_param_harness {
    ($name:ident, $sid:expr, $l:expr) => {
        #[kani::proof]
        #[kani::unwind(2)]
        #[kani::stub(mzcore::init_tree, mzcore::verif::cut_init_tree)]
        #[kani::stub(mzcore::decode_huffman_code, mzcore::verif::cut_decode_huffman_code)]
        #[kani::stub(mzcore::decompress_fast, mzcore::verif::cut_decompress_fast)]
        #[kani::stub(mzcore::transfer, mzcore::verif::cut_transfer)]
        #[kani::stub(mzcore::apply_match, mzcore::verif::cut_apply_match)]
        fn $name() {
            bad_param($sid, $l)
        }
    };
}
bad_param_harness!(s_bad_param_start_l0, 0, 0);
bad_param_harness!(s_bad_param_start_l3, 0, 3);
bad_param_harness!(s_bad_param_block_header_l5, 3, 5);
bad_param_harness!(s_bad_param_raw_memcpy_l6, 7, 6);
bad_param_harness!(s_bad_param_decode_litlen_l7, 12, 7);
bad_param_harness!(s_bad_param_match_copy_l3, 22, 3);
bad_param_harness!(s_bad_param_match_copy_l8, 22, 8);
bad_param_harness!(s_bad_param_done_l4, 24, 4);
bad_param_harness!(s_bad_param_failed_l1, 31, 1);
