//! S tier: one real decode call from an injected automaton state (terminal states only), and
//! the parameter check from any state.
use miniz_oxide::inflate::core as mzcore;
use miniz_oxide::inflate::core::inflate_flags::*;
use miniz_oxide::inflate::core::{decompress_with_limit, DecompressorOxide};
use miniz_oxide::inflate::TINFLStatus;

fn valid_adler(s: u32) -> bool {
    (s & 0xFFFF) < 65521 && (s >> 16) < 65521
}

/// arbitrary decoder (all arrays and registers symbolic) placed in automaton state `sid`,
/// constrained only by the representation invariant every reachable decoder satisfies.
fn injected(sid: u8) -> DecompressorOxide {
    let mut d = DecompressorOxide::verif_havoc();
    let mut regs = d.verif_regs();
    regs.state = sid;
    kani::assume(regs.num_bits <= 61);
    kani::assume(regs.bit_buf < (1u64 << regs.num_bits));
    kani::assume(valid_adler(regs.check_adler32));
    d.verif_set_regs(&regs);
    d
}

/// C04/C05: a failure state is absorbing: Failed with nothing consumed or written, decoder and
/// buffer untouched, for any input, flags, position and budget. DoneForever likewise repeats.
fn terminal(sid: u8) {
    let mut d = injected(sid);
    let input: [u8; 3] = kani::any();
    let n: usize = kani::any();
    kani::assume(n <= 3);
    let mut out: [u8; 4] = kani::any();
    let out0 = out;
    let pos: usize = kani::any();
    let budget: usize = kani::any();
    let flags: u32 = kani::any();
    kani::assume(flags < 256);
    kani::assume(pos <= 4);
    let before = d.verif_regs();
    let r = decompress_with_limit(&mut d, &input[..n], &mut out, pos, budget, flags);
    assert!(r.1 == 0 && r.2 == 0);
    if sid >= mzcore::verif::FIRST_FAILURE_STATE {
        assert!(r.0 == TINFLStatus::Failed);
    } else {
        let checks = flags & TINFL_FLAG_PARSE_ZLIB_HEADER != 0 && flags & TINFL_FLAG_IGNORE_ADLER32 == 0;
        if checks && before.check_adler32 != before.z_adler32 {
            assert!(r.0 == TINFLStatus::Adler32Mismatch);
        } else {
            assert!(r.0 == TINFLStatus::Done);
        }
    }
    let after = d.verif_regs();
    assert!(after.state == sid);
    assert!(after.num_bits == before.num_bits && after.bit_buf == before.bit_buf);
    assert!(after.check_adler32 == before.check_adler32 && after.z_adler32 == before.z_adler32);
    assert!(after.counter == before.counter && after.dist == before.dist && after.num_extra == before.num_extra);
    assert!(out[0] == out0[0] && out[1] == out0[1] && out[2] == out0[2] && out[3] == out0[3]);
    kani::cover!(n == 3 && pos == 0);
    kani::cover!(flags & TINFL_FLAG_USING_NON_WRAPPING_OUTPUT_BUF == 0);
}

macro_rules! terminal_harness {
    ($name:ident, $sid:expr) => {
        #[kani::proof]
        #[kani::unwind(8)]
        fn $name() {
            terminal($sid)
        }
    };
}
terminal_harness!(s_done_forever, 24);
terminal_harness!(s_block_type_unexpected, 25);
terminal_harness!(s_bad_code_size_sum, 26);
terminal_harness!(s_bad_dist_or_literal_table_length, 27);
terminal_harness!(s_bad_total_symbols, 28);
terminal_harness!(s_bad_zlib_header, 29);
terminal_harness!(s_distance_out_of_bounds, 30);
terminal_harness!(s_bad_raw_length, 31);
terminal_harness!(s_bad_code_size_dist_prev_lookup, 32);
terminal_harness!(s_invalid_litlen, 33);
terminal_harness!(s_invalid_dist, 34);

fn regs_equal(a: &mzcore::verif::Regs, b: &mzcore::verif::Regs) -> bool {
    a.state == b.state
        && a.num_bits == b.num_bits
        && a.z_header0 == b.z_header0
        && a.z_header1 == b.z_header1
        && a.z_adler32 == b.z_adler32
        && a.finish == b.finish
        && a.block_type == b.block_type
        && a.check_adler32 == b.check_adler32
        && a.dist == b.dist
        && a.counter == b.counter
        && a.num_extra == b.num_extra
        && a.table_sizes[0] == b.table_sizes[0]
        && a.table_sizes[1] == b.table_sizes[1]
        && a.table_sizes[2] == b.table_sizes[2]
        && a.bit_buf == b.bit_buf
        && a.raw_header[0] == b.raw_header[0]
        && a.raw_header[1] == b.raw_header[1]
        && a.raw_header[2] == b.raw_header[2]
        && a.raw_header[3] == b.raw_header[3]
}

/// C05: unusable buffer geometry (ring size not a power of two, or start position past the end)
/// is refused with BadParam, nothing consumed/written, decoder state and buffer untouched -
/// from any automaton state. The slice length is concrete per call (0..=8 enumerated across the
/// family), position / budget / flags symbolic, geometry assumed bad.
fn bad_param(sid: u8, l: usize) {
    let mut d = injected(sid);
    let input: [u8; 2] = kani::any();
    let mut out: [u8; 8] = kani::any();
    let out0 = out;
    let flags: u32 = kani::any();
    kani::assume(flags < 256);
    let budget: usize = kani::any();
    let pos: usize = kani::any();
    let before = d.verif_regs();
    let flat = flags & TINFL_FLAG_USING_NON_WRAPPING_OUTPUT_BUF != 0;
    let pow2 = l == 0 || l == 1 || l == 2 || l == 4 || l == 8;
    kani::assume(pos > l || (!flat && !pow2));
    let r = decompress_with_limit(&mut d, &input, &mut out[..l], pos, budget, flags);
    assert!(r.0 == TINFLStatus::BadParam && r.1 == 0 && r.2 == 0);
    assert!(regs_equal(&d.verif_regs(), &before));
    let j: usize = kani::any();
    kani::assume(j < 8);
    assert!(out[j] == out0[j]);
    kani::cover!(pos == l + 1);
    kani::cover!(flat);
}

macro_rules! bad_param_harness {
    ($name:ident, $sid:expr, $l:expr) => {
        #[kani::proof]
        #[kani::unwind(2)]
        #[kani::stub(mzcore::init_tree, mzcore::verif::cut_init_tree)]
        #[kani::stub(mzcore::decode_huffman_code, mzcore::verif::cut_decode_huffman_code)]
        #[kani::stub(mzcore::decompress_fast, mzcore::verif::cut_decompress_fast)]
        #[kani::stub(mzcore::transfer, mzcore::verif::cut_transfer)]
        #[kani::stub(mzcore::apply_match, mzcore::verif::cut_apply_match)]
        fn $name() {
            bad_param($sid, $l)
        }
    };
}
bad_param_harness!(s_bad_param_start_l0, 0, 0);
bad_param_harness!(s_bad_param_start_l3, 0, 3);
bad_param_harness!(s_bad_param_block_header_l5, 3, 5);
bad_param_harness!(s_bad_param_raw_memcpy_l6, 7, 6);
bad_param_harness!(s_bad_param_decode_litlen_l7, 12, 7);
bad_param_harness!(s_bad_param_match_copy_l3, 22, 3);
bad_param_harness!(s_bad_param_match_copy_l8, 22, 8);
bad_param_harness!(s_bad_param_done_l4, 24, 4);
bad_param_harness!(s_bad_param_failed_l1, 31, 1);

// ------------------------------------------------------------------------------------------
// C04: the real init_tree rejects exactly the code-length sets the specification rejects.
// Counting, over-subscription and completeness checks run on fully symbolic code lengths; the
// table-building loops behind them are cut at their first `reverse_bits` call - the probe
// standing in for it asserts that a set which reached table building is one the reference accepts.

static mut EXPECT_ACCEPT: bool = false;

fn reverse_bits_probe(_n: u16) -> u16 {
    kani::cover!(true, "table building reached");
    assert!(unsafe { EXPECT_ACCEPT }, "init_tree builds tables for a code-length set the specification rejects");
    kani::assume(false);
    0
}

/// Whole-array model of `<[i16]>::fill` for the two decode-table arrays.
pub fn fill_model_tables<T: Clone>(s: &mut [T], value: T) {
    let n = s.len();
    if core::mem::size_of::<T>() == 2 && n == 1024 {
        let v: u16 = unsafe { core::mem::transmute_copy(&value) };
        let p = s.as_mut_ptr() as *mut [u16; 1024];
        unsafe { *p = [v; 1024] };
    } else if core::mem::size_of::<T>() == 2 && n == 576 {
        let v: u16 = unsafe { core::mem::transmute_copy(&value) };
        let p = s.as_mut_ptr() as *mut [u16; 576];
        unsafe { *p = [v; 576] };
    } else {
        kani::assume(false);
    }
}

/// Kraft sum scaled by 2^15 and the longest length of a code-length set (reference, RFC 1951 3.2.2).
fn kraft(lens: &[u8]) -> (u32, u8) {
    let mut sum = 0u32;
    let mut maxl = 0u8;
    let mut i = 0;
    while i < lens.len() {
        let l = lens[i];
        if l != 0 {
            sum += 1u32 << (15 - l);
            if l > maxl {
                maxl = l;
            }
        }
        i += 1;
    }
    (sum, maxl)
}

/// Code-length code (19 symbols, 3-bit lengths): must be complete, never over-subscribed.
#[kani::proof]
#[kani::unwind(21)]
#[kani::stub(mzcore::reverse_bits, reverse_bits_probe)]
#[kani::stub(<[i16]>::fill, fill_model_tables)]
fn s_init_tree_hufflen_reject() {
    let lens: [u8; 19] = kani::any();
    let mut i = 0;
    while i < 19 {
        kani::assume(lens[i] <= 7);
        i += 1;
    }
    let (sum, _maxl) = kraft(&lens);
    let accept = sum == 1 << 15;
    unsafe { EXPECT_ACCEPT = accept };
    let mut d = DecompressorOxide::new();
    d.verif_set_code_size_huffman(&lens);
    let mut regs = d.verif_regs();
    regs.block_type = 2;
    regs.table_sizes = [257, 1, 19];
    d.verif_set_regs(&regs);
    let r = mzcore::verif::init_tree_hook(&mut d);
    // only rejecting paths return (accepting ones are cut inside the probe after its assertion)
    assert!(r == 3, "a rejected code-length set must end in BadTotalSymbols");
    assert!(!accept, "init_tree rejected a complete, not over-subscribed code-length code");
    kani::cover!(sum > 1 << 15, "over-subscribed");
    kani::cover!(sum < 1 << 15 && sum > 0, "incomplete");
    kani::cover!(sum == 0, "empty");
}

/// Distance code (30 symbols, lengths 0..15) in front of an EOB-only literal code: complete, or
/// at most one symbol of length 1 / no symbol at all (what zlib and the crate document), else rejected.
#[kani::proof]
#[kani::unwind(290)]
#[kani::stub(mzcore::reverse_bits, reverse_bits_probe)]
#[kani::stub(<[i16]>::fill, fill_model_tables)]
fn s_init_tree_dist_reject() {
    let lens: [u8; 30] = kani::any();
    let mut i = 0;
    while i < 30 {
        kani::assume(lens[i] <= 15);
        i += 1;
    }
    let (sum, maxl) = kraft(&lens);
    let accept = sum == 1 << 15 || (maxl <= 1 && sum <= 1 << 15);
    unsafe { EXPECT_ACCEPT = accept };
    let mut lit = [0u8; 257];
    lit[256] = 1;
    let mut d = DecompressorOxide::new();
    d.verif_set_code_sizes(&lit, &lens);
    let mut regs = d.verif_regs();
    regs.block_type = 1;
    d.verif_set_regs(&regs);
    let r = mzcore::verif::init_tree_hook(&mut d);
    assert!(r == 3, "a rejected code-length set must end in BadTotalSymbols");
    assert!(!accept, "init_tree rejected a distance code the specification accepts");
    kani::cover!(sum > 1 << 15, "over-subscribed");
    kani::cover!(sum < 1 << 15 && maxl > 1, "incomplete");
}

// ------------------------------------------------------------------------------------------
// C04: a code-length repeat code (16/17/18) that runs past HLIT+HDIST is rejected. One real
// call from the injected state ReadExtraBitsCodeSize with the repeat count in the bit buffer;
// paths that go on decoding further code lengths or build tables are cut.
#[kani::proof]
#[kani::unwind(140)]
#[kani::stub(mzcore::init_tree, mzcore::verif::cut_init_tree)]
#[kani::stub(mzcore::decode_huffman_code, mzcore::verif::cut_decode_huffman_code)]
#[kani::stub(mzcore::decompress_fast, mzcore::verif::cut_decompress_fast)]
#[kani::stub(mzcore::transfer, mzcore::verif::cut_transfer)]
#[kani::stub(mzcore::apply_match, mzcore::verif::cut_apply_match)]
fn s_code_length_run_overshoot() {
    let mut d = DecompressorOxide::new();
    let mut regs = d.verif_regs();
    regs.state = 11; // ReadExtraBitsCodeSize
    let hlit: u16 = kani::any();
    let hdist: u16 = kani::any();
    kani::assume(hlit >= 257 && hlit <= 286 && hdist >= 1 && hdist <= 30);
    regs.table_sizes = [hlit, hdist, 19];
    regs.block_type = 2;
    let total = (hlit + hdist) as u32;
    let counter: u32 = kani::any();
    kani::assume(counter >= 1 && counter < total);
    regs.counter = counter;
    let sym: u32 = kani::any();
    kani::assume(sym >= 16 && sym <= 18);
    regs.dist = sym;
    regs.num_extra = if sym == 16 { 2 } else if sym == 17 { 3 } else { 7 };
    let bits: u64 = kani::any();
    kani::assume(bits < 128);
    regs.bit_buf = bits;
    regs.num_bits = 7;
    assert!(d.verif_set_regs(&regs));
    let extra = (bits & ((1 << regs.num_extra) - 1)) as u32;
    let run = extra + if sym == 18 { 11 } else { 3 };
    let mut out = [0u8; 4];
    let r = decompress_with_limit(&mut d, &[], &mut out, 0, usize::MAX, TINFL_FLAG_USING_NON_WRAPPING_OUTPUT_BUF);
    // surviving paths: the run ends the code-length list exactly (table building: cut) or overshoots it
    assert!(counter + run > total, "only an overshooting run may return here");
    assert!(r.0 == TINFLStatus::Failed && r.1 == 0 && r.2 == 0);
    assert!(d.verif_state_id() == 26, "BadCodeSizeSum expected");
    kani::cover!(sym == 16);
    kani::cover!(sym == 18 && counter + run == total + 1);
}
