//! W tier, decoder side: the real wrappers (`inflate`, `decompress_to_vec*`,
//! `decompress_slice_iter_to_slice`) against a contract stub of the core `decompress`.
//! The stub may do ANYTHING the contract D1-D7 (DESIGN.md §5.0) allows; bytes it "produces"
//! are fresh symbolic values logged in a ghost array = the true plaintext.
use miniz_oxide::inflate::core as mzcore;
use miniz_oxide::inflate::core::inflate_flags::*;
use miniz_oxide::inflate::core::DecompressorOxide;
use miniz_oxide::inflate::stream::{inflate, InflateState};
use miniz_oxide::inflate::TINFLStatus;
use miniz_oxide::{DataFormat, MZError, MZFlush, MZStatus, StreamResult};

pub const GMAX: usize = 16;
pub static mut G: [u8; GMAX] = [0; GMAX]; // plaintext bytes the core has produced so far
pub static mut G_N: usize = 0;
pub static mut CORE_CALLS: usize = 0;
pub static mut LAST_FLAGS: u32 = 0;
pub static mut CORE_DONE: bool = false;
pub static mut MAX_WRITE: usize = 3;

/// Contract stub for `inflate::core::decompress`.
pub fn decompress_contract(
    r: &mut DecompressorOxide,
    in_buf: &[u8],
    out: &mut [u8],
    out_pos: usize,
    flags: u32,
) -> (TINFLStatus, usize, usize) {
    unsafe {
        CORE_CALLS += 1;
        LAST_FLAGS = flags;
    }
    // D6: unusable geometry is refused, nothing touched
    let mask = if flags & TINFL_FLAG_USING_NON_WRAPPING_OUTPUT_BUF != 0 {
        usize::MAX
    } else {
        out.len().saturating_sub(1)
    };
    if (mask.wrapping_add(1) & mask) != 0 || out_pos > out.len() {
        return (TINFLStatus::BadParam, 0, 0);
    }
    let sid = r.verif_state_id();
    // D7 / D4: terminal results repeat with (0, 0)
    if sid == mzcore::verif::STATE_DONE_FOREVER {
        return (TINFLStatus::Done, 0, 0);
    }
    if sid >= mzcore::verif::FIRST_FAILURE_STATE {
        return (TINFLStatus::Failed, 0, 0);
    }
    // Window integrity (precondition of the real core, module docs of inflate::core): the caller
    // passes the buffer that holds the previously produced plaintext right before out_pos.
    unsafe {
        if G_N > 0 {
            let flat = flags & TINFL_FLAG_USING_NON_WRAPPING_OUTPUT_BUF != 0;
            assert!(!out.is_empty(), "history window lost");
            let prev = if flat { out_pos.wrapping_sub(1) } else { out_pos.wrapping_sub(1) & mask };
            assert!(prev < out.len(), "history window lost");
            assert!(out[prev] == G[G_N - 1], "history window does not hold the last produced byte");
        }
    }
    let room = out.len() - out_pos;
    let st: u8 = kani::any();
    let consumed: usize = kani::any();
    let written: usize = kani::any();
    kani::assume(st < 6);
    kani::assume(consumed <= in_buf.len()); // D1
    kani::assume(written <= room); // D1
    kani::assume(written <= unsafe { MAX_WRITE }); // harness bound on bytes per core call
    let has_more = flags & TINFL_FLAG_HAS_MORE_INPUT != 0;
    let status = match st {
        0 => TINFLStatus::Done,
        1 => TINFLStatus::NeedsMoreInput,
        2 => TINFLStatus::HasMoreOutput,
        3 => TINFLStatus::Failed,
        4 => TINFLStatus::Adler32Mismatch,
        _ => TINFLStatus::FailedCannotMakeProgress,
    };
    // D2: starvation verdicts mean every offered byte was taken, and follow the caller's flag
    if st == 1 {
        kani::assume(consumed == in_buf.len() && has_more);
    }
    if st == 5 {
        kani::assume(consumed == in_buf.len() && !has_more);
    }
    // D3: "has more output" only with the granted window completely full
    if st == 2 {
        kani::assume(written == room);
    }
    if st == 4 {
        kani::assume(flags & TINFL_FLAG_PARSE_ZLIB_HEADER != 0 && flags & TINFL_FLAG_IGNORE_ADLER32 == 0);
    }
    // record the new automaton state
    let mut regs = r.verif_regs();
    regs.state = match st {
        0 | 4 => mzcore::verif::STATE_DONE_FOREVER,
        3 => mzcore::verif::FIRST_FAILURE_STATE,
        _ => 12,
    };
    r.verif_set_regs(&regs);
    unsafe {
        if st == 0 {
            CORE_DONE = true;
        }
        // D5: only [out_pos, out_pos + written) is written; the bytes are fresh plaintext
        let mut i = 0;
        while i < written {
            let b: u8 = kani::any();
            out[out_pos + i] = b;
            kani::assume(G_N < GMAX);
            G[G_N] = b;
            G_N += 1;
            i += 1;
        }
    }
    (status, consumed, written)
}

fn flush_from(n: u8) -> MZFlush {
    match n {
        0 => MZFlush::None,
        1 => MZFlush::Sync,
        2 => MZFlush::Finish,
        _ => MZFlush::Full,
    }
}

fn format_from(n: u8) -> DataFormat {
    match n {
        0 => DataFormat::Raw,
        1 => DataFormat::Zlib,
        _ => DataFormat::ZLibIgnoreChecksum,
    }
}

/// Ghost protocol tracker for C13.
struct Track {
    delivered: usize,
    ended: bool,
    data_err: bool,
    buf_sticky: bool,
    finished_seen: bool,
}

/// One `inflate()` call with symbolic sizes/flush; asserts every per-call clause of C13.
fn one_call(state: &mut InflateState, t: &mut Track, max_in: usize, max_out: usize) {
    let n_in: usize = kani::any();
    let n_out: usize = kani::any();
    kani::assume(n_in <= max_in && n_out <= max_out);
    let fl: u8 = kani::any();
    kani::assume(fl < 4);
    one_call_with(state, t, n_in, n_out, fl)
}

fn one_call_with(state: &mut InflateState, t: &mut Track, n_in: usize, n_out: usize, fl: u8) {
    let input: [u8; 2] = kani::any();
    let mut output = [0u8; 3];
    let flush = flush_from(fl);
    let before = state.verif_parts();
    let g_before = unsafe { G_N };
    let calls_before = unsafe { CORE_CALLS };
    let res: StreamResult = inflate(state, &input[..n_in], &mut output[..n_out], flush);
    // counts never exceed the offered buffers
    assert!(res.bytes_consumed <= n_in);
    assert!(res.bytes_written <= n_out);
    // delivered bytes are the next bytes of the true plaintext, in order
    let mut i = 0;
    while i < res.bytes_written {
        assert!(t.delivered + i < unsafe { G_N });
        assert!(output[i] == unsafe { G[t.delivered + i] });
        i += 1;
    }
    t.delivered += res.bytes_written;
    assert!(t.delivered <= unsafe { G_N });
    // a full-flush request is a stream error and changes nothing
    if fl == 3 {
        assert!(res.status == Err(MZError::Stream));
        assert!(res.bytes_consumed == 0 && res.bytes_written == 0);
        assert!(state.verif_parts() == before);
        assert!(unsafe { CORE_CALLS } == calls_before);
        return;
    }
    // data errors are sticky
    if t.data_err {
        assert!(res.status == Err(MZError::Data));
        assert!(res.bytes_consumed == 0 && res.bytes_written == 0);
    }
    if t.buf_sticky {
        assert!(res.status == Err(MZError::Buf));
    }
    // after a Finish call only Finish is accepted
    if t.finished_seen && fl != 2 && !t.data_err && !t.buf_sticky {
        assert!(res.status == Err(MZError::Stream));
    }
    // stream end exactly when the core is done and every produced byte has been delivered
    if res.status == Ok(MZStatus::StreamEnd) {
        assert!(unsafe { CORE_DONE });
        assert!(t.delivered == unsafe { G_N });
    }
    if res.status == Ok(MZStatus::Ok) && unsafe { CORE_DONE } {
        // done but "Ok": only because plaintext is still pending
        assert!(t.delivered < unsafe { G_N });
    }
    // stable after the end
    if t.ended && !(t.finished_seen && fl != 2) {
        assert!(res.status == Ok(MZStatus::StreamEnd));
        assert!(res.bytes_consumed == 0 && res.bytes_written == 0);
    }
    // progress: non-empty input and output => something moved, or a terminal / error result
    if n_in > 0 && n_out > 0 && res.status == Ok(MZStatus::Ok) {
        assert!(res.bytes_consumed > 0 || res.bytes_written > 0);
    }
    // wrapper invariant re-established
    let after = state.verif_parts();
    assert!(after.dict_ofs < 32768 && after.dict_ofs + after.dict_avail <= 32768);
    match res.status {
        Ok(MZStatus::StreamEnd) => t.ended = true,
        Err(MZError::Data) => t.data_err = true,
        _ => {}
    }
    if after.last_status == TINFLStatus::FailedCannotMakeProgress {
        t.buf_sticky = true;
    }
    if fl == 2 && !t.data_err && !t.buf_sticky || before.has_flushed {
        t.finished_seen = after.has_flushed;
    }
    kani::cover!(true, "end of call reached");
}

fn reset_ghost() {
    unsafe {
        G_N = 0;
        CORE_CALLS = 0;
        CORE_DONE = false;
        MAX_WRITE = 3;
    }
}

/// C13 (a): every first inflate() call on a fresh state (all formats, flushes, sizes, core behaviours).
#[kani::proof]
#[kani::unwind(4)]
#[kani::stub(mzcore::decompress, decompress_contract)]
fn w_inflate_first() {
    reset_ghost();
    let fmt: u8 = kani::any();
    kani::assume(fmt < 3);
    let mut state = InflateState::new_boxed(format_from(fmt));
    let mut t = Track { delivered: 0, ended: false, data_err: false, buf_sticky: false, finished_seen: false };
    one_call(&mut state, &mut t, 2, 2);
}

/// C13 (quick members): first call with concrete sizes and flush, symbolic format and core behaviour.
fn first_call_concrete(n_in: usize, n_out: usize, fl: u8) {
    reset_ghost();
    unsafe { MAX_WRITE = 2 };
    let fmt: u8 = kani::any();
    kani::assume(fmt < 3);
    let mut state = InflateState::new_boxed(format_from(fmt));
    let mut t = Track { delivered: 0, ended: false, data_err: false, buf_sticky: false, finished_seen: false };
    one_call_with(&mut state, &mut t, n_in, n_out, fl);
    kani::cover!(t.ended || n_out == 0);
    kani::cover!(t.data_err);
    kani::cover!(t.delivered > 0 || n_out == 0);
    // format -> flags (C09)
    if unsafe { CORE_CALLS } > 0 {
        let f = unsafe { LAST_FLAGS };
        assert!((f & TINFL_FLAG_PARSE_ZLIB_HEADER != 0) == (fmt != 0));
        assert!((f & TINFL_FLAG_IGNORE_ADLER32 != 0) == (fmt != 1));
        assert!((f & TINFL_FLAG_HAS_MORE_INPUT != 0) == (fl != 2));
    }
}

#[kani::proof]
#[kani::unwind(4)]
#[kani::stub(mzcore::decompress, decompress_contract)]
fn w_inflate_c_none_2_2() {
    first_call_concrete(2, 2, 0)
}

#[kani::proof]
#[kani::unwind(4)]
#[kani::stub(mzcore::decompress, decompress_contract)]
fn w_inflate_c_finish_2_1() {
    first_call_concrete(2, 1, 2)
}

#[kani::proof]
#[kani::unwind(4)]
#[kani::stub(mzcore::decompress, decompress_contract)]
fn w_inflate_c_sync_0_2() {
    first_call_concrete(0, 2, 1)
}

/// C13 inductive step, the branches of inflate() that must NOT reach the core: from an arbitrary
/// wrapper state (any flags, any last status incl. failures, pending window bytes) one call with any
/// flush / sizes: Full => stream error; failed stream => sticky Data (or Buf after a truncated Finish);
/// non-Finish after Finish => stream error; pending window bytes are handed out first, in order,
/// with the ring offset wrapping at 32 KiB; stream-end exactly when the decoder is done and nothing is pending.
fn step_early(dict_ofs: usize) {
    reset_ghost();
    let mut st = InflateState::new_boxed(format_from(0));
    let mut p = st.verif_parts();
    let avail: usize = kani::any();
    kani::assume(avail <= 2);
    p.dict_ofs = dict_ofs;
    p.dict_avail = avail;
    p.first_call = kani::any();
    p.has_flushed = kani::any();
    let f: u8 = kani::any();
    kani::assume(f < 3);
    p.data_format = format_from(f);
    let ls: i8 = kani::any();
    kani::assume(ls >= -4 && ls <= 2);
    p.last_status = TINFLStatus::from_i32(ls as i32).unwrap();
    // wrapper invariants: a fresh/reset state has nothing pending; pending bytes lie inside the ring
    kani::assume(!p.first_call || (avail == 0 && !p.has_flushed));
    kani::assume(dict_ofs + avail <= 32768);
    st.verif_set_parts(&p);
    let w: [u8; 2] = kani::any();
    st.verif_set_dict(dict_ofs, w[0]);
    st.verif_set_dict((dict_ofs + 1) & 32767, w[1]);
    let input: [u8; 2] = kani::any();
    let mut output = [0u8; 3];
    let n_in: usize = kani::any();
    let n_out: usize = kani::any();
    kani::assume(n_in <= 2 && n_out <= 3);
    let fl: u8 = kani::any();
    kani::assume(fl < 4);
    // only the branches that return before decoding
    let failed = ls < 0;
    let finish_first = fl == 2 && p.first_call;
    kani::assume(fl == 3 || failed || (p.has_flushed && fl != 2) || (avail != 0 && !finish_first));
    let res = inflate(&mut st, &input[..n_in], &mut output[..n_out], flush_from(fl));
    let a = st.verif_parts();
    assert!(unsafe { CORE_CALLS } == 0);
    assert!(res.bytes_consumed == 0);
    if fl == 3 {
        assert!(res.status == Err(MZError::Stream) && res.bytes_written == 0);
        assert!(a == p);
    } else if failed {
        assert!(res.bytes_written == 0);
        assert!(res.status == if ls == -4 { Err(MZError::Buf) } else { Err(MZError::Data) });
        assert!(a.last_status == p.last_status && a.dict_avail == avail && a.dict_ofs == dict_ofs);
    } else if p.has_flushed && fl != 2 {
        assert!(res.status == Err(MZError::Stream) && res.bytes_written == 0);
        assert!(a.dict_avail == avail && a.dict_ofs == dict_ofs);
    } else {
        let n = if avail < n_out { avail } else { n_out };
        assert!(res.bytes_written == n);
        if n >= 1 {
            assert!(output[0] == w[0]);
        }
        if n >= 2 {
            assert!(output[1] == w[1]);
        }
        assert!(a.dict_avail == avail - n);
        assert!(a.dict_ofs == (dict_ofs + n) & 32767);
        let end = ls == 0 && avail == n;
        assert!(res.status == Ok(if end { MZStatus::StreamEnd } else { MZStatus::Ok }));
        assert!(a.has_flushed == (p.has_flushed || fl == 2));
    }
    assert!(!a.first_call || fl == 3);
    kani::cover!(res.status == Ok(MZStatus::StreamEnd));
    kani::cover!(res.status == Ok(MZStatus::Ok) && res.bytes_written == 2);
    kani::cover!(res.status == Err(MZError::Buf));
    kani::cover!(res.status == Err(MZError::Data));
    kani::cover!(res.status == Err(MZError::Stream) && fl != 3);
}

/// The branches of inflate() that return before touching the window, from an arbitrary wrapper state.
/// `case`: 0 = Full flush (everything else symbolic); 1/2/3 = stream already failed with
/// Failed / FailedCannotMakeProgress / Adler32Mismatch; 4 = non-Finish request after Finish.
/// The deciding field is concrete per member so that the decode loop is pruned syntactically.
fn step_nodict(case: u8) {
    reset_ghost();
    let mut st = InflateState::new_boxed(format_from(0));
    let mut p = st.verif_parts();
    p.dict_ofs = kani::any();
    p.dict_avail = kani::any();
    kani::assume(p.dict_ofs < 32768 && p.dict_avail <= 32768 && p.dict_ofs + p.dict_avail <= 32768);
    p.first_call = kani::any();
    p.has_flushed = if case == 4 { true } else { kani::any() };
    let f: u8 = kani::any();
    kani::assume(f < 3);
    p.data_format = format_from(f);
    p.last_status = match case {
        1 => TINFLStatus::Failed,
        2 => TINFLStatus::FailedCannotMakeProgress,
        3 => TINFLStatus::Adler32Mismatch,
        4 => TINFLStatus::NeedsMoreInput,
        _ => {
            let ls: i8 = kani::any();
            kani::assume(ls >= -4 && ls <= 2);
            TINFLStatus::from_i32(ls as i32).unwrap()
        }
    };
    kani::assume(!p.first_call || (p.dict_avail == 0 && !p.has_flushed));
    st.verif_set_parts(&p);
    let input: [u8; 2] = kani::any();
    let mut output = [0u8; 3];
    let n_in: usize = kani::any();
    let n_out: usize = kani::any();
    kani::assume(n_in <= 2 && n_out <= 3);
    let flush = match case {
        0 => MZFlush::Full,
        4 => MZFlush::None,
        _ => {
            let fl: u8 = kani::any();
            kani::assume(fl < 3);
            flush_from(fl)
        }
    };
    let res = inflate(&mut st, &input[..n_in], &mut output[..n_out], flush);
    let a = st.verif_parts();
    assert!(unsafe { CORE_CALLS } == 0);
    assert!(res.bytes_consumed == 0 && res.bytes_written == 0);
    match case {
        0 => {
            assert!(res.status == Err(MZError::Stream));
            assert!(a == p);
        }
        2 => assert!(res.status == Err(MZError::Buf)),
        1 | 3 => assert!(res.status == Err(MZError::Data)),
        _ => assert!(res.status == Err(MZError::Stream)),
    }
    // nothing but the first-call marker may change
    assert!(a.dict_ofs == p.dict_ofs && a.dict_avail == p.dict_avail && a.last_status == p.last_status);
    assert!(a.has_flushed == p.has_flushed && a.data_format == p.data_format);
    assert!(output[0] == 0 && output[1] == 0 && output[2] == 0);
    kani::cover!(n_in == 2 && n_out == 3);
}

macro_rules! nodict_harness {
    ($name:ident, $case:expr) => {
        #[kani::proof]
        #[kani::unwind(4)]
        #[kani::stub(mzcore::decompress, decompress_contract)]
        fn $name() {
            step_nodict($case)
        }
    };
}
nodict_harness!(w_inflate_step_full, 0);
// cases 1..4 (sticky errors, non-Finish after Finish) do not fit: the deciding field lives in the
// 43 KB heap object and CBMC does not propagate it, so the whole decode loop stays in the formula
// (resource failure at 16 GB / timeout at 36 GB). They are covered by w_inflate_step_early_* (thorough).

#[kani::proof]
#[kani::unwind(4)]
#[kani::stub(mzcore::decompress, decompress_contract)]
fn w_inflate_step_early_ofs0() {
    step_early(0)
}

#[kani::proof]
#[kani::unwind(4)]
#[kani::stub(mzcore::decompress, decompress_contract)]
fn w_inflate_step_early_wrap() {
    step_early(32766)
}

/// C13: two calls with concrete sizes/flushes (history-dependent clauses: sticky errors, Finish stickiness,
/// pending-window hand-off, window integrity for the core).
fn two_calls_concrete(a: (usize, usize, u8), b: (usize, usize, u8)) {
    reset_ghost();
    unsafe { MAX_WRITE = 2 };
    let fmt: u8 = kani::any();
    kani::assume(fmt < 3);
    let mut state = InflateState::new_boxed(format_from(fmt));
    let mut t = Track { delivered: 0, ended: false, data_err: false, buf_sticky: false, finished_seen: false };
    one_call_with(&mut state, &mut t, a.0, a.1, a.2);
    one_call_with(&mut state, &mut t, b.0, b.1, b.2);
}

#[kani::proof]
#[kani::unwind(4)]
#[kani::stub(mzcore::decompress, decompress_contract)]
fn w_inflate_c2_finish_finish() {
    two_calls_concrete((2, 1, 2), (1, 2, 2))
}

#[kani::proof]
#[kani::unwind(4)]
#[kani::stub(mzcore::decompress, decompress_contract)]
fn w_inflate_c2_none_none() {
    two_calls_concrete((1, 1, 0), (1, 2, 0))
}

#[kani::proof]
#[kani::unwind(4)]
#[kani::stub(mzcore::decompress, decompress_contract)]
fn w_inflate_c2_none_finish() {
    two_calls_concrete((2, 1, 0), (0, 2, 2))
}

/// C13 (a'): every sequence of two inflate() calls from a fresh state.
#[kani::proof]
#[kani::unwind(4)]
#[kani::stub(mzcore::decompress, decompress_contract)]
fn w_inflate_seq2() {
    reset_ghost();
    unsafe { MAX_WRITE = 2 };
    let fmt: u8 = kani::any();
    kani::assume(fmt < 3);
    let mut state = InflateState::new_boxed(format_from(fmt));
    let mut t = Track { delivered: 0, ended: false, data_err: false, buf_sticky: false, finished_seen: false };
    one_call(&mut state, &mut t, 1, 2);
    one_call(&mut state, &mut t, 1, 2);
}

/// C09/C13: data format -> decoder flags as observed by the core.
#[kani::proof]
#[kani::unwind(5)]
#[kani::stub(mzcore::decompress, decompress_contract)]
fn w_inflate_format_flags() {
    reset_ghost();
    let fmt: u8 = kani::any();
    kani::assume(fmt < 3);
    let fl: u8 = kani::any();
    kani::assume(fl < 3);
    let mut state = InflateState::new_boxed(format_from(fmt));
    let input: [u8; 2] = kani::any();
    let mut output = [0u8; 2];
    let _ = inflate(&mut state, &input, &mut output, flush_from(fl));
    assert!(unsafe { CORE_CALLS } >= 1);
    let f = unsafe { LAST_FLAGS };
    // zlib framing is parsed exactly for the two zlib formats; checksum verified unless asked to ignore
    assert!((f & TINFL_FLAG_PARSE_ZLIB_HEADER != 0) == (fmt != 0));
    assert!((f & TINFL_FLAG_IGNORE_ADLER32 != 0) == (fmt != 1));
    assert!((f & TINFL_FLAG_COMPUTE_ADLER32 != 0) == (fmt == 1));
    // "more input may follow" is announced exactly when the caller did not ask to finish
    assert!((f & TINFL_FLAG_HAS_MORE_INPUT != 0) == (fl != 2));
    // first-call Finish decodes straight into the caller's (non-wrapping) buffer
    assert!((f & TINFL_FLAG_USING_NON_WRAPPING_OUTPUT_BUF != 0) == (fl == 2));
    kani::cover!(fmt == 2 && fl == 2);
}

// ------------------------------------------------------------------------------------------
// One-shot helpers over the contract stub (C01/C03/C05/C08).
use miniz_oxide::inflate::{decompress_slice_iter_to_slice, decompress_to_vec_with_limit, decompress_to_vec_zlib_with_limit};

/// Contract stub + D8: a fresh decoder offered no input at all can only report starvation.
pub fn decompress_contract_fresh(
    r: &mut DecompressorOxide,
    in_buf: &[u8],
    out: &mut [u8],
    out_pos: usize,
    flags: u32,
) -> (TINFLStatus, usize, usize) {
    let fresh = r.verif_state_id() == 0;
    let res = decompress_contract(r, in_buf, out, out_pos, flags);
    if fresh && in_buf.is_empty() {
        kani::assume(res.0 == TINFLStatus::FailedCannotMakeProgress || res.0 == TINFLStatus::NeedsMoreInput);
    }
    res
}

/// C08/C01/C03/C05: decompress_to_vec*_with_limit delivers exactly what the core produced, never more
/// than the limit, fails with HasMoreOutput only when the limit is reached, and terminates.
#[kani::proof]
#[kani::unwind(10)]
#[kani::stub(mzcore::decompress, decompress_contract_fresh)]
fn w_vec_limit() {
    reset_ghost();
    unsafe { MAX_WRITE = 4 };
    let input: [u8; 2] = kani::any();
    let n: usize = kani::any();
    kani::assume(n <= 1);
    let limit: usize = kani::any();
    kani::assume(limit <= 4);
    let zlib: bool = kani::any();
    let res = if zlib {
        decompress_to_vec_zlib_with_limit(&input[..n], limit)
    } else {
        decompress_to_vec_with_limit(&input[..n], limit)
    };
    let f = unsafe { LAST_FLAGS };
    assert!(f & TINFL_FLAG_USING_NON_WRAPPING_OUTPUT_BUF != 0);
    assert!((f & TINFL_FLAG_PARSE_ZLIB_HEADER != 0) == zlib);
    assert!(f & TINFL_FLAG_HAS_MORE_INPUT == 0);
    let produced = unsafe { G_N };
    match res {
        Ok(v) => {
            assert!(unsafe { CORE_DONE });
            assert!(v.len() == produced && v.len() <= limit);
            let mut i = 0;
            while i < v.len() {
                assert!(v[i] == unsafe { G[i] });
                i += 1;
            }
            core::mem::forget(v);
        }
        Err(e) => {
            assert!(!unsafe { CORE_DONE } || e.status == TINFLStatus::Adler32Mismatch);
            assert!(e.output.len() <= limit);
            assert!(produced <= e.output.len());
            // the decoded prefix is handed back
            let mut i = 0;
            while i < produced {
                assert!(e.output[i] == unsafe { G[i] });
                i += 1;
            }
            if e.status == TINFLStatus::HasMoreOutput {
                // only because the limit is exhausted
                assert!(produced == limit);
            }
            kani::cover!(e.status == TINFLStatus::HasMoreOutput && limit > 0);
            core::mem::forget(e);
        }
    }
    kani::cover!(produced == limit && limit > 1);
}

/// C03/C05: decompress_slice_iter_to_slice over two slices.
#[kani::proof]
#[kani::unwind(6)]
#[kani::stub(mzcore::decompress, decompress_contract)]
fn w_slice_iter() {
    reset_ghost();
    let a: [u8; 2] = kani::any();
    let b: [u8; 2] = kani::any();
    let na: usize = kani::any();
    let nb: usize = kani::any();
    kani::assume(na <= 2 && nb <= 2);
    let mut out = [0u8; 4];
    let n_out: usize = kani::any();
    kani::assume(n_out <= 4);
    let zlib: bool = kani::any();
    let ignore: bool = kani::any();
    let slices = [&a[..na], &b[..nb]];
    let res = decompress_slice_iter_to_slice(&mut out[..n_out], slices.iter().copied(), zlib, ignore);
    let f = unsafe { LAST_FLAGS };
    assert!((f & TINFL_FLAG_PARSE_ZLIB_HEADER != 0) == zlib);
    assert!((f & TINFL_FLAG_IGNORE_ADLER32 != 0) == ignore);
    let produced = unsafe { G_N };
    match res {
        Ok(n) => {
            assert!(unsafe { CORE_DONE });
            assert!(n == produced && n <= n_out);
        }
        Err(st) => {
            assert!(st != TINFLStatus::Done && st != TINFLStatus::NeedsMoreInput);
        }
    }
    // whatever happened, the output holds the produced plaintext prefix
    let mut i = 0;
    while i < produced {
        assert!(out[i] == unsafe { G[i] });
        i += 1;
    }
    // more input is announced exactly for the non-last slice
    if unsafe { CORE_CALLS } == 2 {
        assert!(f & TINFL_FLAG_HAS_MORE_INPUT == 0);
    }
    kani::cover!(unsafe { CORE_CALLS } == 2 && res.is_ok());
    kani::cover!(res == Err(TINFLStatus::FailedCannotMakeProgress));
}
