//! Harness-side reference definitions (trusted base, validated natively by `refcheck`).

/// Adler-32 by the RFC 1950 definition, one byte at a time, modulo at each step.
pub fn adler32_ref(start: u32, data: &[u8]) -> u32 {
    let mut a = start & 0xFFFF;
    let mut b = start >> 16;
    let mut i = 0;
    while i < data.len() {
        a = (a + data[i] as u32) % 65521;
        b = (b + a) % 65521;
        i += 1;
    }
    (b << 16) | a
}

/// CRC-32 (ISO 3309 / zlib), bit at a time.
pub fn crc32_ref(start: u32, data: &[u8]) -> u32 {
    let mut c = !start;
    let mut i = 0;
    while i < data.len() {
        c ^= data[i] as u32;
        let mut k = 0;
        while k < 8 {
            c = if c & 1 != 0 { (c >> 1) ^ 0xEDB8_8320 } else { c >> 1 };
            k += 1;
        }
        i += 1;
    }
    !c
}

/// RFC 1951 §3.2.5: (base length, extra bits) of length symbol 257+i, i in 0..29.
pub fn rfc_length(i: u32) -> (u32, u32) {
    if i < 8 {
        (3 + i, 0)
    } else if i == 28 {
        (258, 0)
    } else {
        let e = (i - 4) / 4;
        (3 + ((4 + (i % 4)) << e), e)
    }
}

/// RFC 1951 §3.2.5: (base distance, extra bits) of distance symbol i in 0..30.
pub fn rfc_dist(i: u32) -> (u32, u32) {
    if i < 4 {
        (1 + i, 0)
    } else {
        let e = i / 2 - 1;
        (1 + ((2 + (i % 2)) << e), e)
    }
}

/// Length symbol index (0..29) and extra-bit value for a match length 3..=258.
pub fn rfc_len_to_sym(len: u32) -> (u32, u32, u32) {
    let mut i = 0;
    while i < 29 {
        let (base, e) = rfc_length(i);
        let hi = if i == 28 { 258 } else { base + (1 << e) - 1 };
        // Length 258 must use symbol 285 (i = 28), not 284 + extra 31.
        if len >= base && len <= hi && !(len == 258 && i == 27) {
            return (i, e, len - base);
        }
        i += 1;
    }
    (u32::MAX, 0, 0)
}

/// Distance symbol (0..30), number of extra bits and extra value for distance 1..=32768.
pub fn rfc_dist_to_sym(dist: u32) -> (u32, u32, u32) {
    let mut i = 0;
    while i < 30 {
        let (base, e) = rfc_dist(i);
        if dist >= base && dist < base + (1 << e) {
            return (i, e, dist - base);
        }
        i += 1;
    }
    (u32::MAX, 0, 0)
}

/// RFC 1950 header validity.
pub fn rfc1950_header_ok(cmf: u32, flg: u32) -> bool {
    (cmf * 256 + flg) % 31 == 0 && (flg & 0x20) == 0 && (cmf & 15) == 8 && (cmf >> 4) <= 7
}

/// Loop-free closed form of `rfc_len_to_sym` (validated against it for all lengths by `refcheck`).
pub fn len_to_sym_closed(len: u32) -> (u32, u32, u32) {
    let l = len - 3;
    if l < 8 {
        (l, 0, 0)
    } else if len == 258 {
        (28, 0, 0)
    } else {
        let k = 31 - l.leading_zeros();
        let e = k - 2;
        (4 * k - 4 + ((l >> e) & 3), e, l & ((1 << e) - 1))
    }
}

/// Loop-free closed form of `rfc_dist_to_sym` (validated against it for all distances by `refcheck`).
pub fn dist_to_sym_closed(dist: u32) -> (u32, u32, u32) {
    let x = dist - 1;
    if x < 4 {
        (x, 0, 0)
    } else {
        let k = 31 - x.leading_zeros();
        let e = k - 1;
        (2 * k + ((x >> e) & 1), e, x & ((1 << e) - 1))
    }
}

/// Result of the reference stored-block decoder.
#[derive(Clone, Copy)]
pub struct StoredDecoded {
    /// no format violation seen in the bytes examined (only BTYPE=00 blocks are understood)
    pub ok: bool,
    /// a final block was seen (and, for zlib, a matching Adler-32 trailer)
    pub complete: bool,
    pub data: [u8; 16],
    pub n: usize,
    /// bytes of `buf` that belong to complete blocks (+ header/trailer)
    pub consumed: usize,
    pub blocks: usize,
    pub finals: usize,
    /// the bytes after the last complete block are a proper prefix of a block (or nothing)
    pub tail_is_prefix: bool,
}

/// Independent decoder for the stored-block subset of RFC 1951 (+ RFC 1950 framing):
/// blocks are `[BFINAL | 00 << 1 (5 pad bits = anything)] LEN NLEN data`. Decodes as many
/// complete blocks as `buf` holds. At most 6 blocks / 16 payload bytes (harness bound).
pub fn stored_decode_ref(buf: &[u8], zlib: bool) -> StoredDecoded {
    let mut r = StoredDecoded { ok: true, complete: false, data: [0; 16], n: 0, consumed: 0, blocks: 0, finals: 0, tail_is_prefix: true };
    let mut pos = 0usize;
    if zlib {
        if buf.len() < 2 {
            return r;
        }
        if !rfc1950_header_ok(buf[0] as u32, buf[1] as u32) {
            r.ok = false;
            return r;
        }
        pos = 2;
        r.consumed = 2;
    }
    let mut b = 0;
    while b < 6 {
        if pos >= buf.len() {
            return r;
        }
        let h = buf[pos];
        if (h >> 1) & 3 != 0 {
            r.ok = false; // not a stored block
            return r;
        }
        if pos + 5 > buf.len() {
            return r;
        }
        let len = buf[pos + 1] as usize | ((buf[pos + 2] as usize) << 8);
        let nlen = buf[pos + 3] as usize | ((buf[pos + 4] as usize) << 8);
        if len != (!nlen & 0xFFFF) {
            r.ok = false;
            return r;
        }
        if pos + 5 + len > buf.len() {
            return r;
        }
        if r.n + len > 16 {
            r.ok = false; // beyond the harness bound
            return r;
        }
        let mut i = 0;
        while i < len {
            r.data[r.n + i] = buf[pos + 5 + i];
            i += 1;
        }
        r.n += len;
        pos += 5 + len;
        r.blocks += 1;
        r.consumed = pos;
        if h & 1 == 1 {
            r.finals += 1;
            if zlib {
                if pos + 4 > buf.len() {
                    return r;
                }
                let t = u32::from_be_bytes([buf[pos], buf[pos + 1], buf[pos + 2], buf[pos + 3]]);
                if t != adler32_ref(1, &r.data[..r.n]) {
                    r.ok = false;
                    return r;
                }
                r.consumed = pos + 4;
            }
            r.complete = true;
            r.tail_is_prefix = r.consumed == buf.len();
            return r;
        }
        b += 1;
    }
    r.ok = false;
    r
}
