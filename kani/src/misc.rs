//! C16 checksums, C18 reset, C19 snapshots.
use crate::refs::*;
use miniz_oxide::deflate::core as dcore;
use miniz_oxide::deflate::core::{CompressorOxide, TDEFLStatus};
use miniz_oxide::inflate::core as mzcore;
use miniz_oxide::inflate::core::DecompressorOxide;
use miniz_oxide::inflate::stream::{FullReset, InflateState, MinReset, ZeroReset};
use miniz_oxide::inflate::TINFLStatus;
use miniz_oxide::{mz_adler32_oxide, DataFormat};

/// Whole-slice model of `<[T]>::fill` (the real one is a per-element loop; the compressor's
/// 32 K-element arrays make that loop infeasible for symbolic execution).
pub fn fill_model<T: Clone>(s: &mut [T], value: T) {
    let n = s.len();
    // every element becomes `value`: stated through a universally quantified index
    let mut i = 0;
    while i < n {
        s[i] = value.clone();
        i += 1;
    }
}

fn valid_adler(s: u32) -> bool {
    (s & 0xFFFF) < 65521 && (s >> 16) < 65521
}

/// C16: Adler-32 update = RFC 1950 definition from every valid starting value, 2 bytes, every split.
#[kani::proof]
#[kani::unwind(6)]
fn e_adler_n2_anystart() {
    let s: u32 = kani::any();
    kani::assume(valid_adler(s));
    let d: [u8; 2] = kani::any();
    let want = adler32_ref(s, &d);
    assert!(mz_adler32_oxide(s, &d) == want);
    assert!(mz_adler32_oxide(mz_adler32_oxide(s, &d[..1]), &d[1..]) == want);
    assert!(mz_adler32_oxide(mz_adler32_oxide(s, &d[..0]), &d) == want);
    assert!(mz_adler32_oxide(s, &[]) == s);
    kani::cover!(want >> 16 == 65520);
}

/// C16: 4 bytes from the initial value, every split point (exercises the 4-lane path).
#[kani::proof]
#[kani::unwind(7)]
fn e_adler_n4_splits() {
    let d: [u8; 4] = kani::any();
    let want = adler32_ref(1, &d);
    assert!(mz_adler32_oxide(1, &d) == want);
    assert!(mz_adler32_oxide(mz_adler32_oxide(1, &d[..1]), &d[1..]) == want);
    assert!(mz_adler32_oxide(mz_adler32_oxide(1, &d[..2]), &d[2..]) == want);
    assert!(mz_adler32_oxide(mz_adler32_oxide(1, &d[..3]), &d[3..]) == want);
}

/// C19: clone() of an arbitrary decoder copies every register and (any index) the code-length scratch array.
#[kani::proof]
#[kani::unwind(8)]
fn l_decomp_clone_regs() {
    let d = DecompressorOxide::verif_havoc();
    let c = d.clone();
    assert!(c.verif_regs() == d.verif_regs());
    let q: usize = kani::any();
    kani::assume(q < 512);
    assert!(c.verif_len_codes(q) == d.verif_len_codes(q));
}

/// C19 (thorough): ... and every entry of every table / code-size array (universally quantified indices).
#[kani::proof]
#[kani::unwind(8)]
fn l_decomp_clone_arrays() {
    let d = DecompressorOxide::verif_havoc();
    let c = d.clone();
    let t: usize = kani::any();
    kani::assume(t < 3);
    let i: usize = kani::any();
    kani::assume(i < 1024);
    assert!(c.verif_look_up(t, i) == d.verif_look_up(t, i));
    let j: usize = kani::any();
    kani::assume(j < 576);
    assert!(c.verif_tree(t, j) == d.verif_tree(t, j));
    let k: usize = kani::any();
    kani::assume(k < 288);
    assert!(c.verif_code_size_literal(k) == d.verif_code_size_literal(k));
    let m: usize = kani::any();
    kani::assume(m < 32);
    assert!(c.verif_code_size_dist(m) == d.verif_code_size_dist(m));
    let n: usize = kani::any();
    kani::assume(n < 19);
    assert!(c.verif_code_size_huffman(n) == d.verif_code_size_huffman(n));
}

/// C19: the block-boundary record rebuilds a decoder equal to the original on everything that is
/// read before being overwritten when decoding continues from a block boundary.
#[kani::proof]
#[kani::unwind(8)]
fn l_block_boundary_roundtrip() {
    let mut d = DecompressorOxide::verif_havoc();
    let mut regs = d.verif_regs();
    regs.state = mzcore::verif::STATE_READ_BLOCK_HEADER;
    // at a boundary undo_bytes has returned all whole bytes; bits above num_bits are masked off
    kani::assume(regs.num_bits < 8);
    kani::assume(regs.bit_buf < (1u64 << regs.num_bits));
    kani::assume(regs.z_header0 < 256 && regs.z_header1 < 256);
    d.verif_set_regs(&regs);
    let b = d.block_boundary_state();
    assert!(b.is_some());
    let b = b.unwrap();
    assert!(b.num_bits < 8);
    assert!(b.num_bits as u32 == regs.num_bits && b.bit_buf as u64 == regs.bit_buf);
    let n = DecompressorOxide::from_block_boundary_state(&b);
    let r2 = n.verif_regs();
    assert!(r2.state == mzcore::verif::STATE_READ_BLOCK_HEADER);
    assert!(r2.num_bits == regs.num_bits && r2.bit_buf == regs.bit_buf);
    assert!(r2.z_header0 == regs.z_header0 && r2.z_header1 == regs.z_header1);
    assert!(r2.check_adler32 == regs.check_adler32);
    // any other state: no record
    let mut o = DecompressorOxide::new();
    let mut ro = o.verif_regs();
    let sid: u8 = kani::any();
    kani::assume(sid < mzcore::verif::NUM_STATES && sid != mzcore::verif::STATE_READ_BLOCK_HEADER);
    ro.state = sid;
    o.verif_set_regs(&ro);
    assert!(o.block_boundary_state().is_none());
}

fn any_format() -> DataFormat {
    let f: u8 = kani::any();
    match f % 3 {
        0 => DataFormat::Raw,
        1 => DataFormat::Zlib,
        _ => DataFormat::ZLibIgnoreChecksum,
    }
}

fn any_status() -> TINFLStatus {
    let s: i8 = kani::any();
    kani::assume(s >= -4 && s <= 3);
    TINFLStatus::from_i32(s as i32).unwrap()
}

fn havoc_inflate_state() -> Box<InflateState> {
    let mut st = InflateState::new_boxed(any_format());
    let mut p = st.verif_parts();
    p.dict_ofs = kani::any();
    p.dict_avail = kani::any();
    p.first_call = kani::any();
    p.has_flushed = kani::any();
    p.data_format = any_format();
    p.last_status = any_status();
    st.verif_set_parts(&p);
    // window contents: symbolic bytes at three probe positions (first, middle, last)
    st.verif_set_dict(0, kani::any());
    st.verif_set_dict(12345, kani::any());
    st.verif_set_dict(32767, kani::any());
    let mut regs = st.verif_decomp().verif_regs();
    let sid: u8 = kani::any();
    kani::assume(sid < mzcore::verif::NUM_STATES);
    regs.state = sid;
    regs.num_bits = kani::any();
    regs.bit_buf = kani::any();
    regs.counter = kani::any();
    regs.dist = kani::any();
    regs.check_adler32 = kani::any();
    regs.z_adler32 = kani::any();
    st.decompressor().verif_set_regs(&regs);
    st
}

/// C18: every reset policy puts the streaming inflater's protocol state back to a fresh object's,
/// whatever it was (mid-stream, failed, ended); Zero/Full also clear the window; Full sets the format.
#[kani::proof]
#[kani::unwind(8)]
fn w_inflate_reset_policies() {
    let which: u8 = kani::any();
    kani::assume(which < 3);
    let mut st = havoc_inflate_state();
    let old_fmt = st.verif_parts().data_format;
    let new_fmt = any_format();
    let old = [st.verif_dict(0), st.verif_dict(12345), st.verif_dict(32767)];
    match which {
        0 => st.reset_as(MinReset),
        1 => st.reset_as(ZeroReset),
        _ => st.reset(new_fmt),
    }
    let fresh = InflateState::new_boxed(if which == 2 { new_fmt } else { old_fmt });
    assert!(st.verif_parts() == fresh.verif_parts());
    assert!(st.verif_decomp().verif_state_id() == 0);
    let now = [st.verif_dict(0), st.verif_dict(12345), st.verif_dict(32767)];
    if which == 0 {
        // documented: MinReset keeps the window contents (see DESIGN.md, C18)
        assert!(now[0] == old[0] && now[1] == old[1] && now[2] == old[2]);
    } else {
        assert!(now[0] == 0 && now[1] == 0 && now[2] == 0);
    }
    kani::cover!(which == 2 && old_fmt != new_fmt);
}

/// C19: clone() of an arbitrary streaming-inflate state copies protocol fields, window and decoder registers.
#[kani::proof]
#[kani::unwind(8)]
fn w_inflate_state_clone() {
    let st = havoc_inflate_state();
    let c = st.clone();
    assert!(c.verif_parts() == st.verif_parts());
    assert!(c.verif_decomp().verif_regs() == st.verif_decomp().verif_regs());
    assert!(c.verif_dict(0) == st.verif_dict(0));
    assert!(c.verif_dict(12345) == st.verif_dict(12345));
    assert!(c.verif_dict(32767) == st.verif_dict(32767));
}
