//! Kani harnesses over the real miniz_oxide / miniz_oxide_c_api code.
#![allow(dead_code, unused_imports, clippy::all)]
pub mod refs;
#[cfg(kani)]
mod leaf;
#[cfg(kani)]
mod wrap_deflate;
#[cfg(kani)]
mod wrap_inflate;
#[cfg(kani)]
mod e_comp;
#[cfg(kani)]
mod capi;
#[cfg(kani)]
mod misc;
#[cfg(kani)]
mod unit;
#[cfg(kani)]
mod steps;
#[cfg(kani)]
mod gen;
