//! Kani harnesses over the real miniz_oxide / miniz_oxide_c_api code.
#![allow(dead_code, unused_imports, clippy::all)]
pub mod refs;
#[cfg(kani)]
mod leaf;
#[cfg(kani)]
mod wrap_deflate;
#[cfg(kani)]
mod gen;
