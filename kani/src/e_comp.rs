//! E tier, compressor at level 0 (stored blocks): the real pipeline, nothing stubbed,
//! input bytes symbolic, sizes and schedules concrete per harness.
use crate::refs::*;
use miniz_oxide::deflate::core::{
    compress, create_comp_flags_from_zip_params, CompressorOxide, TDEFLFlush, TDEFLStatus,
};

fn bound(n: u64) -> u64 {
    miniz_oxide_c_api::mz_deflateBound(core::ptr::null_mut(), n as libc::c_ulong) as u64
}

/// One Finish call: C01 (lossless), C09 (header/trailer), C10 (stored only, one final block),
/// C14/K3 (Done), C15 (size <= bound), C16 (running Adler-32).
fn one_shot(zlib: bool, n: usize) {
    let data: [u8; 4] = kani::any();
    let flags = create_comp_flags_from_zip_params(0, zlib as i32, 0);
    let mut c = CompressorOxide::new(flags);
    let mut out = [0u8; 24];
    let (st, cin, cout) = compress(&mut c, &data[..n], &mut out, TDEFLFlush::Finish);
    assert!(st == TDEFLStatus::Done);
    assert!(cin == n);
    assert!(cout <= 24);
    assert!(c.prev_return_status() == TDEFLStatus::Done);
    let d = stored_decode_ref(&out[..cout], zlib);
    assert!(d.ok && d.complete);
    assert!(d.consumed == cout);
    assert!(d.finals == 1);
    assert!(d.n == n);
    let mut i = 0;
    while i < n {
        assert!(d.data[i] == data[i]);
        i += 1;
    }
    if zlib {
        assert!(c.adler32() == adler32_ref(1, &data[..n]));
        assert!(out[0] & 15 == 8 && out[0] >> 4 == 7);
    }
    assert!(cout as u64 <= bound(n as u64));
    assert!(cout == n + 5 + if zlib { 6 } else { 0 });
    // K2: once Done, the core refuses every further call without touching anything
    let mut out2 = [0u8; 4];
    let fl: u8 = kani::any();
    let flush2 = if fl & 1 == 0 { TDEFLFlush::Finish } else { TDEFLFlush::None };
    let (st2, cin2, cout2) = compress(&mut c, &data[..1], &mut out2, flush2);
    assert!(st2 == TDEFLStatus::BadParam && cin2 == 0 && cout2 == 0);
    kani::cover!(cout > 0);
}

#[kani::proof]
#[kani::unwind(300)]
fn e_comp0_raw_n2() {
    one_shot(false, 2)
}

#[kani::proof]
#[kani::unwind(300)]
fn e_comp0_zlib_n1() {
    one_shot(true, 1)
}

#[kani::proof]
#[kani::unwind(300)]
fn e_comp0_raw_n0() {
    one_shot(false, 0)
}

#[kani::proof]
#[kani::unwind(300)]
fn e_comp0_zlib_n3() {
    one_shot(true, 3)
}
