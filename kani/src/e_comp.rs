//! E tier, compressor at level 0 (stored blocks): the real pipeline, nothing stubbed,
//! input bytes symbolic, sizes and schedules concrete per harness.
use crate::refs::*;
use miniz_oxide::deflate::core::{
    compress, create_comp_flags_from_zip_params, CompressorOxide, TDEFLFlush, TDEFLStatus,
};

fn bound(n: u64) -> u64 {
    miniz_oxide_c_api::mz_deflateBound(core::ptr::null_mut(), n as libc::c_ulong) as u64
}

/// One Finish call: C01 (lossless), C09 (header/trailer), C10 (stored only, one final block),
/// C14/K3 (Done), C15 (size <= bound), C16 (running Adler-32).
fn one_shot(zlib: bool, n: usize) {
    let data: [u8; 4] = kani::any();
    let flags = create_comp_flags_from_zip_params(0, zlib as i32, 0);
    let mut c = CompressorOxide::new(flags);
    let mut out = [0u8; 24];
    let (st, cin, cout) = compress(&mut c, &data[..n], &mut out, TDEFLFlush::Finish);
    assert!(st == TDEFLStatus::Done);
    assert!(cin == n);
    assert!(cout <= 24);
    assert!(c.prev_return_status() == TDEFLStatus::Done);
    let d = stored_decode_ref(&out[..cout], zlib);
    assert!(d.ok && d.complete);
    assert!(d.consumed == cout);
    assert!(d.finals == 1);
    assert!(d.n == n);
    let mut i = 0;
    while i < n {
        assert!(d.data[i] == data[i]);
        i += 1;
    }
    if zlib {
        assert!(c.adler32() == adler32_ref(1, &data[..n]));
        assert!(out[0] & 15 == 8 && out[0] >> 4 == 7);
    }
    assert!(cout as u64 <= bound(n as u64));
    assert!(cout == n + 5 + if zlib { 6 } else { 0 });
    // K2: once Done, the core refuses every further call without touching anything
    let mut out2 = [0u8; 4];
    let (st2, cin2, cout2) = compress(&mut c, &[], &mut out2, TDEFLFlush::Finish);
    assert!(st2 == TDEFLStatus::BadParam && cin2 == 0 && cout2 == 0);
    let (st3, cin3, cout3) = compress(&mut c, &[], &mut out2, TDEFLFlush::None);
    assert!(st3 == TDEFLStatus::BadParam && cin3 == 0 && cout3 == 0);
    kani::cover!(cout > 0);
}

#[kani::proof]
#[kani::unwind(300)]
fn e_comp0_raw_n2() {
    one_shot(false, 2)
}

#[kani::proof]
#[kani::unwind(300)]
fn e_comp0_zlib_n1() {
    one_shot(true, 1)
}

#[kani::proof]
#[kani::unwind(300)]
fn e_comp0_raw_n0() {
    one_shot(false, 0)
}

#[kani::proof]
#[kani::unwind(300)]
fn e_comp0_zlib_n3() {
    one_shot(true, 3)
}

/// C12 (+C02/C09): a flush call at level 0 that consumes everything with space to spare:
/// the bytes emitted so far decode (independent stored decoder) to all input so far; Sync/Full end
/// with the empty stored block 00 00 FF FF on a byte boundary; then Finish completes the one stream.
fn flush_then_finish(zlib: bool, flush: TDEFLFlush, n1: usize, n2: usize) {
    let data: [u8; 4] = kani::any();
    let flags = create_comp_flags_from_zip_params(0, zlib as i32, 0);
    let mut c = CompressorOxide::new(flags);
    let mut out = [0u8; 40];
    let (st, cin, cout) = compress(&mut c, &data[..n1], &mut out, flush);
    assert!(st == TDEFLStatus::Okay);
    assert!(cin == n1 && cout <= 40);
    let d = stored_decode_ref(&out[..cout], zlib);
    assert!(d.ok && !d.complete);
    assert!(d.finals == 0);
    assert!(d.n == n1);
    let mut i = 0;
    while i < n1 {
        assert!(d.data[i] == data[i]);
        i += 1;
    }
    let marker = flush == TDEFLFlush::Sync || flush == TDEFLFlush::Full;
    if marker {
        assert!(d.consumed == cout); // whole blocks only: ends on a byte boundary
        assert!(cout >= 4 && out[cout - 4] == 0 && out[cout - 3] == 0 && out[cout - 2] == 0xFF && out[cout - 1] == 0xFF);
        assert!(c.unwritten_bit_count() == 0);
    }
    if zlib {
        assert!(c.adler32() == adler32_ref(1, &data[..n1]));
    }
    // second call: the rest + Finish; header is not repeated, one final block, whole stream decodes to all input
    let (st2, cin2, cout2) = compress(&mut c, &data[n1..n1 + n2], &mut out[cout..], TDEFLFlush::Finish);
    assert!(st2 == TDEFLStatus::Done && cin2 == n2);
    let all = stored_decode_ref(&out[..cout + cout2], zlib);
    assert!(all.ok && all.complete && all.finals == 1);
    assert!(all.consumed == cout + cout2);
    assert!(all.n == n1 + n2);
    let mut j = 0;
    while j < n1 + n2 {
        assert!(all.data[j] == data[j]);
        j += 1;
    }
    kani::cover!(cout2 > 0);
}

#[kani::proof]
#[kani::unwind(300)]
fn e_comp0_sync_raw_1_1() {
    flush_then_finish(false, TDEFLFlush::Sync, 1, 1)
}

#[kani::proof]
#[kani::unwind(300)]
fn e_comp0_full_zlib_1_1() {
    flush_then_finish(true, TDEFLFlush::Full, 1, 1)
}

#[kani::proof]
#[kani::unwind(300)]
fn e_comp0_sync_zlib_0_1() {
    // flush before any input: the header must still come out exactly once
    flush_then_finish(true, TDEFLFlush::Sync, 0, 1)
}

#[kani::proof]
#[kani::unwind(300)]
fn e_comp0_none_then_finish_raw_2_0() {
    // no flush: nothing need be emitted, but nothing may be lost either
    let data: [u8; 2] = kani::any();
    let flags = create_comp_flags_from_zip_params(0, 0, 0);
    let mut c = CompressorOxide::new(flags);
    let mut out = [0u8; 24];
    let (st, cin, cout) = compress(&mut c, &data, &mut out, TDEFLFlush::None);
    assert!(st == TDEFLStatus::Okay && cin == 2 && cout <= 24);
    let (st2, cin2, cout2) = compress(&mut c, &[], &mut out[cout..], TDEFLFlush::Finish);
    assert!(st2 == TDEFLStatus::Done && cin2 == 0);
    let all = stored_decode_ref(&out[..cout + cout2], false);
    assert!(all.ok && all.complete && all.finals == 1 && all.n == 2);
    assert!(all.data[0] == data[0] && all.data[1] == data[1]);
    assert!(all.consumed == cout + cout2);
}
