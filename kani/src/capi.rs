//! C ABI shim (miniz_oxide_c_api): L tier arithmetic and W tier wrappers. CBMC pointer checks
//! are on: buffers handed to the extern "C" functions are exactly as large as declared, so any
//! access outside [ptr, ptr+avail) is an out-of-bounds failure (the role of C17's guard pages).
use crate::refs::*;
use miniz_oxide::deflate::stream as dstream;
use miniz_oxide::inflate::stream as istream;
use miniz_oxide::inflate::stream::InflateState;
use miniz_oxide::deflate::core::CompressorOxide;
use miniz_oxide::{MZError, MZFlush, MZStatus, StreamResult};
use miniz_oxide_c_api::*;
use std::panic as stdpanic;

/// Kani models panic=abort; `catch_unwind` is the identity on non-panicking closures
/// (a panic inside is reported by Kani as a failed check, which is stronger than C17 asks).
pub fn catch_unwind_identity<F: FnOnce() -> R + stdpanic::UnwindSafe, R>(f: F) -> std::thread::Result<R> {
    Ok(f())
}

/// Exact size of the level-0 zlib stream for n input bytes: stored.rs cuts a block whenever more
/// than 31*1024 bytes are pending, the final flush always emits one (possibly empty) block.
fn level0_zlib_size(n: u64) -> u64 {
    n + 6 + 5 * (n / 31745 + 1)
}

/// C15: the advertised bound covers the level-0 (worst-case expansion) stream size for every
/// length below 4 GiB, without overflow, and mz_compressBound is the same function.
#[kani::proof]
fn l_deflate_bound() {
    let n: u64 = kani::any();
    kani::assume(n < (1u64 << 32));
    let b = mz_deflateBound(core::ptr::null_mut(), n as libc::c_ulong) as u64;
    assert!(b >= level0_zlib_size(n));
    assert!(b >= n + 128);
    assert!(mz_compressBound(n as libc::c_ulong) as u64 == b);
    // not below either arm of the bound the library documents as sufficient (miniz: 10% expansion
    // margin for Huffman-coded blocks, 5 bytes per 31 KiB stored block); a larger bound is fine
    let a1 = 128 + (n * 110) / 100;
    let a2 = 128 + n + (n / 31744 + 1) * 5;
    assert!(b >= a1 && b >= a2);
    kani::cover!(n == 0);
    kani::cover!(n == 31745 * 3);
}

/// Contract stub for the Rust streaming inflate / deflate: any result within the offered buffers.
pub static mut S_RES: StreamResult = StreamResult { bytes_consumed: 0, bytes_written: 0, status: Ok(MZStatus::Ok) };
pub static mut S_CALLS: usize = 0;
pub static mut S_FLUSH: i32 = -1;

fn any_result(in_len: usize, out_len: usize) -> StreamResult {
    let c: usize = kani::any();
    let w: usize = kani::any();
    kani::assume(c <= in_len && w <= out_len);
    let s: u8 = kani::any();
    let status = match s % 6 {
        0 => Ok(MZStatus::Ok),
        1 => Ok(MZStatus::StreamEnd),
        2 => Err(MZError::Buf),
        3 => Err(MZError::Data),
        4 => Err(MZError::Stream),
        _ => Err(MZError::Param),
    };
    StreamResult { bytes_consumed: c, bytes_written: w, status }
}

pub fn inflate_contract(_state: &mut InflateState, input: &[u8], output: &mut [u8], flush: MZFlush) -> StreamResult {
    let r = any_result(input.len(), output.len());
    // touch exactly the granted ranges: reads input, writes the produced prefix of output
    let mut i = 0;
    while i < r.bytes_written {
        output[i] = kani::any();
        i += 1;
    }
    if !input.is_empty() {
        let _ = input[input.len() - 1];
    }
    unsafe {
        S_RES = r;
        S_CALLS += 1;
        S_FLUSH = flush as i32;
    }
    r
}

pub fn deflate_contract(_c: &mut CompressorOxide, input: &[u8], output: &mut [u8], flush: MZFlush) -> StreamResult {
    let r = any_result(input.len(), output.len());
    let mut i = 0;
    while i < r.bytes_written {
        output[i] = kani::any();
        i += 1;
    }
    if !input.is_empty() {
        let _ = input[input.len() - 1];
    }
    unsafe {
        S_RES = r;
        S_CALLS += 1;
        S_FLUSH = flush as i32;
    }
    r
}

fn code_of(r: &StreamResult) -> i32 {
    match r.status {
        Ok(s) => s as i32,
        Err(e) => e as i32,
    }
}

/// C17: mz_inflateInit / mz_inflate / mz_inflateEnd through the real extern "C" wrappers.
#[kani::proof]
#[kani::unwind(5)]
#[kani::stub(stdpanic::catch_unwind, catch_unwind_identity)]
#[kani::stub(istream::inflate, inflate_contract)]
fn w_mz_inflate() {
    unsafe {
        S_CALLS = 0;
        let mut stream = mz_stream::default();
        assert!(mz_inflateInit(&mut stream) == 0);
        // buffers exactly as large as declared
        let n_in: usize = kani::any();
        let n_out: usize = kani::any();
        kani::assume(n_in <= 3 && n_out <= 3);
        let inb: [u8; 3] = kani::any();
        let mut outb = [0u8; 3];
        // place the ranges at the END of their objects so one-past accesses fall outside
        let in_ptr = inb.as_ptr().add(3 - n_in);
        let out_ptr = outb.as_mut_ptr().add(3 - n_out);
        stream.next_in = in_ptr;
        stream.avail_in = n_in as u32;
        stream.next_out = out_ptr;
        stream.avail_out = n_out as u32;
        let t_in: u64 = kani::any();
        let t_out: u64 = kani::any();
        stream.total_in = t_in as libc::c_ulong;
        stream.total_out = t_out as libc::c_ulong;
        let flush: i32 = kani::any();
        let rc = mz_inflate(&mut stream, flush);
        let valid_flush = flush >= 0 && flush <= 4;
        if !valid_flush {
            // out-of-range flush values are a parameter error; nothing moves
            assert!(rc == MZError::Param as i32);
            assert!(S_CALLS == 0);
            assert!(stream.next_in == in_ptr && stream.avail_in == n_in as u32);
            assert!(stream.next_out == out_ptr && stream.avail_out == n_out as u32);
            assert!(stream.total_in as u64 == t_in && stream.total_out as u64 == t_out);
        } else {
            assert!(S_CALLS == 1);
            let r = S_RES;
            // same status as the Rust call
            assert!(rc == code_of(&r));
            // pointer advance = drop in avail = rise in total, never beyond what was available
            assert!(stream.next_in == in_ptr.add(r.bytes_consumed));
            assert!(stream.avail_in as usize == n_in - r.bytes_consumed);
            assert!(stream.total_in as u64 == t_in.wrapping_add(r.bytes_consumed as u64));
            assert!(stream.next_out == out_ptr.add(r.bytes_written));
            assert!(stream.avail_out as usize == n_out - r.bytes_written);
            assert!(stream.total_out as u64 == t_out.wrapping_add(r.bytes_written as u64));
            // flush value mapping (partial is treated as sync)
            let want = if flush == 1 { 2 } else { flush };
            assert!(S_FLUSH == want);
        }
        assert!(stream.state.is_some());
        assert!(mz_inflateEnd(&mut stream) == 0);
        assert!(stream.state.is_none());
        kani::cover!(valid_flush && n_in == 3 && n_out == 3);
        kani::cover!(!valid_flush);
    }
}

/// C17: mz_deflateInit2 / mz_deflate / mz_deflateEnd through the real extern "C" wrappers.
#[kani::proof]
#[kani::unwind(5)]
#[kani::stub(stdpanic::catch_unwind, catch_unwind_identity)]
#[kani::stub(dstream::deflate, deflate_contract)]
fn w_mz_deflate() {
    unsafe {
        S_CALLS = 0;
        let mut stream = mz_stream::default();
        assert!(mz_deflateInit(&mut stream, 6) == 0);
        let n_in: usize = kani::any();
        let n_out: usize = kani::any();
        kani::assume(n_in <= 3 && n_out <= 3);
        let inb: [u8; 3] = kani::any();
        let mut outb = [0u8; 3];
        let in_ptr = inb.as_ptr().add(3 - n_in);
        let out_ptr = outb.as_mut_ptr().add(3 - n_out);
        stream.next_in = in_ptr;
        stream.avail_in = n_in as u32;
        stream.next_out = out_ptr;
        stream.avail_out = n_out as u32;
        let t_in: u64 = kani::any();
        let t_out: u64 = kani::any();
        stream.total_in = t_in as libc::c_ulong;
        stream.total_out = t_out as libc::c_ulong;
        let flush: i32 = kani::any();
        let rc = mz_deflate(&mut stream, flush);
        let valid_flush = flush >= 0 && flush <= 4;
        if !valid_flush {
            assert!(rc == MZError::Param as i32);
            assert!(S_CALLS == 0);
            assert!(stream.next_in == in_ptr && stream.avail_in == n_in as u32);
            assert!(stream.next_out == out_ptr && stream.avail_out == n_out as u32);
        } else {
            assert!(S_CALLS == 1);
            let r = S_RES;
            assert!(rc == code_of(&r));
            assert!(stream.next_in == in_ptr.add(r.bytes_consumed));
            assert!(stream.avail_in as usize == n_in - r.bytes_consumed);
            assert!(stream.total_in as u64 == t_in.wrapping_add(r.bytes_consumed as u64));
            assert!(stream.next_out == out_ptr.add(r.bytes_written));
            assert!(stream.avail_out as usize == n_out - r.bytes_written);
            assert!(stream.total_out as u64 == t_out.wrapping_add(r.bytes_written as u64));
        }
        assert!(stream.state.is_some());
        kani::cover!(valid_flush && n_in == 3 && n_out == 3);
        // dropping the 300 KB compressor is not part of the claim (drop glue exhausts CBMC's memory)
        core::mem::forget(stream);
    }
}

/// C17 misuse: null stream, wrong stream kind, custom allocators, missing buffers, bad init parameters
/// return error codes; no panic, no access outside the stream object.
#[kani::proof]
#[kani::unwind(5)]
#[kani::stub(stdpanic::catch_unwind, catch_unwind_identity)]
#[kani::stub(istream::inflate, inflate_contract)]
#[kani::stub(dstream::deflate, deflate_contract)]
fn w_mz_misuse() {
    unsafe {
        let flush: i32 = kani::any();
        // null stream pointers
        assert!(mz_inflate(core::ptr::null_mut(), flush) == MZError::Stream as i32);
        assert!(mz_deflate(core::ptr::null_mut(), flush) == MZError::Stream as i32);
        assert!(mz_inflateEnd(core::ptr::null_mut()) == MZError::Stream as i32);
        assert!(mz_deflateEnd(core::ptr::null_mut()) == MZError::Stream as i32);
        assert!(mz_deflateReset(core::ptr::null_mut()) == MZError::Stream as i32);
        assert!(mz_inflateInit(core::ptr::null_mut()) == MZError::Stream as i32);
        assert!(mz_deflateInit(core::ptr::null_mut(), 6) == MZError::Stream as i32);
        // init parameter validation
        let level: i32 = kani::any();
        let method: i32 = kani::any();
        let wbits: i32 = kani::any();
        let mem: i32 = kani::any();
        let strat: i32 = kani::any();
        let mut s = mz_stream::default();
        let rc = mz_deflateInit2(&mut s, level, method, wbits, mem, strat);
        let ok = method == 8 && mem >= 1 && mem <= 9 && (wbits == 15 || wbits == -15);
        assert!(rc == if ok { 0 } else { MZError::Param as i32 });
        assert!(s.state.is_some() == ok);
        core::mem::forget(s);
        let mut si = mz_stream::default();
        let rci = mz_inflateInit2(&mut si, wbits);
        assert!(rci == if wbits == 15 || wbits == -15 { 0 } else { MZError::Param as i32 });
        // a stream of the other kind is refused
        let mut d = mz_stream::default();
        d.data_type = lib_oxide::StateTypeEnum::DeflateType;
        d.state = Some(Box::new(lib_oxide::InternalState::Deflate(Box::default())));
        assert!(mz_inflate(&mut d, 0) == MZError::Param as i32);
        assert!(mz_inflateEnd(&mut d) == MZError::Param as i32);
        // buffers missing: stream error, state kept
        assert!(mz_deflate(&mut d, 0) == MZError::Stream as i32);
        assert!(d.state.is_some());
        // a never-initialised stream
        let mut z = mz_stream::default();
        assert!(mz_inflate(&mut z, 0) == MZError::Param as i32);
        assert!(mz_deflateEnd(&mut d) == 0);
        kani::cover!(ok);
        kani::cover!(!ok);
    }
}


// ------------------------------------------------------------------------------------------
// tinfl_decompress pointer arithmetic and the checksum wrappers.
use miniz_oxide::inflate::core as mzcore;
use miniz_oxide::inflate::core::DecompressorOxide;
use miniz_oxide::inflate::TINFLStatus;

pub static mut T_IN_PTR: usize = 0;
pub static mut T_IN_LEN: usize = 0;
pub static mut T_OUT_PTR: usize = 0;
pub static mut T_OUT_LEN: usize = 0;
pub static mut T_OUT_POS: usize = 0;
pub static mut T_FLAGS: u32 = 0;
pub static mut T_RES: (i32, usize, usize) = (0, 0, 0);

/// Contract stub for the core `decompress` as the C shim calls it: records the slices it was
/// handed, touches exactly [out_pos, out_pos + written) and the offered input, returns any
/// result within D1.
pub fn decompress_recording(
    _r: &mut DecompressorOxide,
    in_buf: &[u8],
    out: &mut [u8],
    out_pos: usize,
    flags: u32,
) -> (TINFLStatus, usize, usize) {
    unsafe {
        T_IN_PTR = in_buf.as_ptr() as usize;
        T_IN_LEN = in_buf.len();
        T_OUT_PTR = out.as_ptr() as usize;
        T_OUT_LEN = out.len();
        T_OUT_POS = out_pos;
        T_FLAGS = flags;
    }
    kani::assume(out_pos <= out.len());
    let c: usize = kani::any();
    let w: usize = kani::any();
    kani::assume(c <= in_buf.len() && w <= out.len() - out_pos);
    let s: i8 = kani::any();
    kani::assume(s >= -4 && s <= 2);
    let mut i = 0;
    while i < w {
        out[out_pos + i] = kani::any();
        i += 1;
    }
    if !in_buf.is_empty() {
        let _ = in_buf[in_buf.len() - 1];
    }
    if !out.is_empty() {
        let _ = out[0]; // the window before out_pos may be read (match sources)
    }
    unsafe { T_RES = (s as i32, c, w) };
    (TINFLStatus::from_i32(s as i32).unwrap(), c, w)
}

/// C17: tinfl_decompress reconstructs the output window from (start, next, remaining size) and
/// writes back consumed/produced counts; every access stays inside the caller's ranges.
#[kani::proof]
#[kani::unwind(8)]
#[kani::stub(mzcore::decompress, decompress_recording)]
fn w_tinfl_decompress() {
    unsafe {
        let mut dec = tinfl_decompressor::default();
        let r: *mut tinfl_decompressor = &mut dec;
        let inb: [u8; 3] = kani::any();
        let mut outb = [0u8; 6];
        let n_in: usize = kani::any();
        let pos: usize = kani::any();
        let room: usize = kani::any();
        kani::assume(n_in <= 3 && pos <= 6 && room <= 6 - pos);
        // input range ends at the end of its object; the output window [start, next+room) too
        let in_ptr = inb.as_ptr().add(3 - n_in);
        let start = outb.as_mut_ptr().add(6 - pos - room);
        let next = start.add(pos);
        let mut in_size = n_in;
        let mut out_size = room;
        let flags: u32 = kani::any();
        let rc = tinfl_decompress(r, in_ptr, &mut in_size, start, next, &mut out_size, flags);
        // the core saw exactly the caller's ranges
        assert!(T_IN_PTR == in_ptr as usize && T_IN_LEN == n_in);
        assert!(T_OUT_PTR == start as usize && T_OUT_LEN == pos + room && T_OUT_POS == pos);
        assert!(T_FLAGS == flags);
        // results are passed through unchanged
        assert!(rc == T_RES.0 && in_size == T_RES.1 && out_size == T_RES.2);
        assert!(in_size <= n_in && out_size <= room);
        kani::cover!(pos == 3 && room == 3 && n_in == 3);
        kani::cover!(room == 0);
    }
}

/// C16/C17: the C checksum entry points: null pointer => initial value; otherwise the Rust
/// function on exactly (ptr, len), starting from the low 32 bits of the running value.
#[kani::proof]
#[kani::unwind(8)]
fn w_mz_checksum_wrappers() {
    unsafe {
        let adler: u64 = kani::any();
        let n: usize = kani::any();
        assert!(mz_adler32(adler as libc::c_ulong, core::ptr::null(), n) == 1);
        assert!(mz_crc32(adler as libc::c_ulong, core::ptr::null(), n) == 0);
        let d: [u8; 2] = kani::any();
        kani::assume((adler & 0xFFFF) < 65521 && ((adler >> 16) & 0xFFFF) < 65521);
        let got = mz_adler32(adler as libc::c_ulong, d.as_ptr(), 2) as u64;
        assert!(got == adler32_ref(adler as u32, &d) as u64);
        assert!(got >> 32 == 0);
        // zero-length buffer: the running value (truncated to 32 bits) comes back
        assert!(mz_adler32(adler as libc::c_ulong, d.as_ptr(), 0) as u64 == (adler as u32) as u64);
        kani::cover!(adler >> 32 != 0);
    }
}
