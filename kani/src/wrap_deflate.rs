//! W tier, compressor side: real dispatch/wrapper code against marker or contract stubs.
use miniz_oxide::deflate::core as dcore;
use miniz_oxide::deflate::core::deflate_flags::*;
use miniz_oxide::deflate::core::{
    compress, CompressionStrategy, CompressorOxide, TDEFLFlush, TDEFLStatus,
};
use miniz_oxide::DataFormat;

fn strategy_from(n: u8) -> CompressionStrategy {
    match n {
        1 => CompressionStrategy::Filtered,
        2 => CompressionStrategy::HuffmanOnly,
        3 => CompressionStrategy::RLE,
        4 => CompressionStrategy::Fixed,
        _ => CompressionStrategy::Default,
    }
}

/// Routing: for every (format, level, strategy, window_bits) the real `with_params` + real
/// `compress_inner` select the back end that implements the requested mode. Back ends and
/// `flush_block` are marker stubs (they record which one ran).
/// `c10`: assert the clauses of C10 (requested RLE / filtered / level 0 honoured);
/// `c11`: assert the clause of C11 (zlib with window_bits < 12 is confined to distance-1 matches).
fn routing(c10: bool, c11: bool) {
    let fmt: u8 = kani::any();
    let level: u8 = kani::any();
    let strat: u8 = kani::any();
    let wb: u8 = kani::any();
    kani::assume(fmt <= 1);
    kani::assume(strat <= 4);
    let format = if fmt == 1 { DataFormat::Zlib } else { DataFormat::Raw };
    let mut c = CompressorOxide::with_params(format, level, strategy_from(strat), wb);
    let flags = c.flags() as u32;
    let mut out = [0u8; 4];
    let (st, cin, cout) = compress(&mut c, &[], &mut out, TDEFLFlush::None);
    assert!(st == TDEFLStatus::Okay && cin == 0 && cout == 0);
    let route = c.verif_route_mark() & 3;

    let raw = flags & TDEFL_FORCE_ALL_RAW_BLOCKS != 0;
    let rle = flags & TDEFL_RLE_MATCHES != 0;
    let filter = flags & TDEFL_FILTER_MATCHES != 0;
    let one_probe_greedy = (flags & 0xFFF) == 1 && flags & TDEFL_GREEDY_PARSING_FLAG != 0;

    // --- settings -> flags
    let lvl = if level > 10 { 10 } else { level };
    let w = if wb > 15 { 15 } else { wb };
    assert!(raw == (lvl == 0));
    assert!((flags & TDEFL_WRITE_ZLIB_HEADER != 0) == (fmt == 1 && w > 0));
    if lvl != 0 {
        // RLE is in force when asked for, and whenever the window cannot hold real matches
        assert!(rle == (strat == 3 || (w < 12 && strat != 2)));
        assert!(filter == (strat == 1 && !(w < 12)));
        if strat == 2 {
            assert!(flags & 0xFFF == 0);
        }
        if w < 15 && strat != 2 {
            assert!(flags & 0xFFF <= 1);
        }
    }
    // --- flags -> back end (only compress_normal implements RLE and filtering)
    if raw {
        assert!(route == dcore::verif::ROUTE_STORED);
    } else if filter {
        assert!(route == dcore::verif::ROUTE_NORMAL);
    } else if rle {
        if c10 && strat == 3 {
            // C10: run-length mode requested by the caller
            assert!(route == dcore::verif::ROUTE_NORMAL);
        }
        if c11 && flags & TDEFL_WRITE_ZLIB_HEADER != 0 && w < 12 {
            // C11: the zlib header declares <= 2 KiB and the library forced RLE to honour it
            assert!(route == dcore::verif::ROUTE_NORMAL);
        }
    } else if one_probe_greedy {
        assert!(route == dcore::verif::ROUTE_FAST);
    } else {
        assert!(route == dcore::verif::ROUTE_NORMAL);
    }
    kani::cover!(route == dcore::verif::ROUTE_STORED);
    kani::cover!(route == dcore::verif::ROUTE_FAST);
    kani::cover!(route == dcore::verif::ROUTE_NORMAL);
    kani::cover!(rle && fmt == 1 && w < 12);
    kani::cover!(rle && strat == 3);
}

#[kani::proof]
#[kani::unwind(6)]
#[kani::stub(dcore::compress_fast, dcore::verif::mark_compress_fast)]
#[kani::stub(dcore::compress_normal, dcore::verif::mark_compress_normal)]
#[kani::stub(dcore::compress_stored, dcore::verif::mark_compress_stored)]
#[kani::stub(dcore::flush_block, dcore::verif::mark_flush_block)]
fn w_routing_c10() {
    routing(true, false)
}

#[kani::proof]
#[kani::unwind(6)]
#[kani::stub(dcore::compress_fast, dcore::verif::mark_compress_fast)]
#[kani::stub(dcore::compress_normal, dcore::verif::mark_compress_normal)]
#[kani::stub(dcore::compress_stored, dcore::verif::mark_compress_stored)]
#[kani::stub(dcore::flush_block, dcore::verif::mark_flush_block)]
fn w_routing_c11() {
    routing(false, true)
}
