//! W tier, compressor side: real dispatch/wrapper code against marker or contract stubs.
use miniz_oxide::deflate::core as dcore;
use miniz_oxide::deflate::core::deflate_flags::*;
use miniz_oxide::deflate::core::{
    compress, CompressionStrategy, CompressorOxide, TDEFLFlush, TDEFLStatus,
};
use miniz_oxide::DataFormat;

fn strategy_from(n: u8) -> CompressionStrategy {
    match n {
        1 => CompressionStrategy::Filtered,
        2 => CompressionStrategy::HuffmanOnly,
        3 => CompressionStrategy::RLE,
        4 => CompressionStrategy::Fixed,
        _ => CompressionStrategy::Default,
    }
}

/// Routing: for every (format, level, strategy, window_bits) the real `with_params` + real
/// `compress_inner` select the back end that implements the requested mode. Back ends and
/// `flush_block` are marker stubs (they record which one ran).
/// `c10`: assert the clauses of C10 (requested RLE / filtered / level 0 honoured);
/// `c11`: assert the clause of C11 (zlib with window_bits < 12 is confined to distance-1 matches).
fn routing(c10: bool, c11: bool) {
    let fmt: u8 = kani::any();
    let level: u8 = kani::any();
    let strat: u8 = kani::any();
    let wb: u8 = kani::any();
    kani::assume(fmt <= 1);
    kani::assume(strat <= 4);
    let format = if fmt == 1 { DataFormat::Zlib } else { DataFormat::Raw };
    let mut c = CompressorOxide::with_params(format, level, strategy_from(strat), wb);
    let flags = c.flags() as u32;
    let mut out = [0u8; 4];
    let (st, cin, cout) = compress(&mut c, &[], &mut out, TDEFLFlush::None);
    assert!(st == TDEFLStatus::Okay && cin == 0 && cout == 0);
    let route = c.verif_route_mark() & 3;

    let raw = flags & TDEFL_FORCE_ALL_RAW_BLOCKS != 0;
    let rle = flags & TDEFL_RLE_MATCHES != 0;
    let filter = flags & TDEFL_FILTER_MATCHES != 0;
    let one_probe_greedy = (flags & 0xFFF) == 1 && flags & TDEFL_GREEDY_PARSING_FLAG != 0;

    // --- settings -> flags
    let lvl = if level > 10 { 10 } else { level };
    let w = if wb > 15 { 15 } else { wb };
    assert!(raw == (lvl == 0));
    assert!((flags & TDEFL_WRITE_ZLIB_HEADER != 0) == (fmt == 1 && w > 0));
    if lvl != 0 {
        if c10 {
            // C10: run-length mode is in force whenever the caller asked for it
            if strat == 3 {
                assert!(rle);
            }
            // ... and nobody gets it unasked except through the small-window rule
            if rle {
                assert!(strat == 3 || w < 12);
            }
        }
        if c11 && fmt == 1 && w > 0 && w < 12 && strat != 2 {
            // C11: a zlib header declaring <= 2 KiB confines the stream to distance-1 matches
            assert!(rle);
        }
        if !rle {
            assert!(filter == (strat == 1));
        }
        if strat == 2 {
            assert!(flags & 0xFFF == 0);
        }
        if w < 15 && strat != 2 {
            assert!(flags & 0xFFF <= 1);
        }
    }
    // --- flags -> back end (only compress_normal implements RLE and filtering)
    if raw {
        assert!(route == dcore::verif::ROUTE_STORED);
    } else if filter {
        assert!(route == dcore::verif::ROUTE_NORMAL);
    } else if rle {
        if c10 && strat == 3 {
            // C10: run-length mode requested by the caller
            assert!(route == dcore::verif::ROUTE_NORMAL);
        }
        if c11 && flags & TDEFL_WRITE_ZLIB_HEADER != 0 && w < 12 {
            // C11: the zlib header declares <= 2 KiB and the library forced RLE to honour it
            assert!(route == dcore::verif::ROUTE_NORMAL);
        }
    } else if one_probe_greedy {
        assert!(route == dcore::verif::ROUTE_FAST);
    } else {
        assert!(route == dcore::verif::ROUTE_NORMAL);
    }
    kani::cover!(route == dcore::verif::ROUTE_STORED);
    kani::cover!(route == dcore::verif::ROUTE_FAST);
    kani::cover!(route == dcore::verif::ROUTE_NORMAL);
    kani::cover!(rle && fmt == 1 && w < 12);
    kani::cover!(rle && strat == 3);
}

#[kani::proof]
#[kani::unwind(6)]
#[kani::stub(dcore::compress_fast, dcore::verif::mark_compress_fast)]
#[kani::stub(dcore::compress_normal, dcore::verif::mark_compress_normal)]
#[kani::stub(dcore::compress_stored, dcore::verif::mark_compress_stored)]
#[kani::stub(dcore::flush_block, dcore::verif::mark_flush_block)]
fn w_routing_c10() {
    routing(true, false)
}

#[kani::proof]
#[kani::unwind(6)]
#[kani::stub(dcore::compress_fast, dcore::verif::mark_compress_fast)]
#[kani::stub(dcore::compress_normal, dcore::verif::mark_compress_normal)]
#[kani::stub(dcore::compress_stored, dcore::verif::mark_compress_stored)]
#[kani::stub(dcore::flush_block, dcore::verif::mark_flush_block)]
fn w_routing_c11() {
    routing(false, true)
}

// ------------------------------------------------------------------------------------------
// C14: the real streaming `deflate()` against a contract stub of the core `compress`.
use miniz_oxide::deflate::stream::deflate;
use miniz_oxide::{MZError, MZFlush, MZStatus};

pub static mut K_CALLS: usize = 0;
pub static mut K_FINISH_SEEN: bool = false;

fn set_prev(d: &mut CompressorOxide, st: TDEFLStatus) {
    let mut s = d.verif_scalars();
    s.prev_return_status = st;
    d.verif_set_scalars(&s);
}

/// Contract K1-K5 (DESIGN.md §5.0) for `deflate::core::compress` with a buffer sink.
pub fn compress_contract(
    d: &mut CompressorOxide,
    in_buf: &[u8],
    out_buf: &mut [u8],
    flush: TDEFLFlush,
) -> (TDEFLStatus, usize, usize) {
    unsafe { K_CALLS += 1 };
    let finish = flush == TDEFLFlush::Finish;
    // K2: a previous non-Okay status, or a non-Finish request after Finish, is refused
    if d.prev_return_status() != TDEFLStatus::Okay || (unsafe { K_FINISH_SEEN } && !finish) {
        set_prev(d, TDEFLStatus::BadParam);
        return (TDEFLStatus::BadParam, 0, 0);
    }
    if finish {
        unsafe { K_FINISH_SEEN = true };
    }
    let in_pos: usize = kani::any();
    let out_pos: usize = kani::any();
    let done: bool = kani::any();
    kani::assume(in_pos <= in_buf.len() && out_pos <= out_buf.len()); // K1
    if done {
        // K3: Done only on a Finish request, with all input taken
        kani::assume(finish && in_pos == in_buf.len());
    } else if !in_buf.is_empty() || flush != TDEFLFlush::None {
        // K5: when there is something to do and output space, something moves
        if !out_buf.is_empty() {
            kani::assume(in_pos > 0 || out_pos > 0);
        }
        if finish {
            // ... and with Finish the core stops short of Done only because the output is full
            kani::assume(out_pos == out_buf.len());
        }
    }
    let st = if done { TDEFLStatus::Done } else { TDEFLStatus::Okay };
    set_prev(d, st);
    (st, in_pos, out_pos)
}

fn mzflush_from(n: u8) -> MZFlush {
    match n {
        0 => MZFlush::None,
        1 => MZFlush::Sync,
        2 => MZFlush::Full,
        3 => MZFlush::Finish,
        _ => MZFlush::Partial,
    }
}

struct DTrack {
    ended: bool,
    finish_seen: bool,
    errored: bool,
}

fn deflate_call(c: &mut CompressorOxide, t: &mut DTrack) {
    let input: [u8; 2] = kani::any();
    let mut output = [0u8; 3];
    let n_in: usize = kani::any();
    let n_out: usize = kani::any();
    kani::assume(n_in <= 2 && n_out <= 3);
    let fl: u8 = kani::any();
    kani::assume(fl < 5);
    let flush = mzflush_from(fl);
    let prev = c.prev_return_status();
    let calls = unsafe { K_CALLS };
    let r = deflate(c, &input[..n_in], &mut output[..n_out], flush);
    assert!(r.bytes_consumed <= n_in && r.bytes_written <= n_out);
    if n_out == 0 {
        // an empty output buffer is refused without side effects
        assert!(r.status == Err(MZError::Buf) && r.bytes_consumed == 0 && r.bytes_written == 0);
        assert!(c.prev_return_status() == prev && unsafe { K_CALLS } == calls);
        return;
    }
    if t.ended {
        // after the end: Finish keeps returning stream-end with nothing written, anything else is a buffer error
        assert!(r.bytes_consumed == 0 && r.bytes_written == 0);
        assert!(r.status == if fl == 3 { Ok(MZStatus::StreamEnd) } else { Err(MZError::Buf) });
        assert!(unsafe { K_CALLS } == calls);
        return;
    }
    if t.errored {
        assert!(r.status == Err(MZError::Param));
        return;
    }
    if t.finish_seen && fl != 3 {
        // a non-Finish call after Finish is an error, not a corrupted stream
        assert!(r.status == Err(MZError::Param));
        assert!(r.bytes_consumed == 0 && r.bytes_written == 0);
        t.errored = true;
        return;
    }
    match r.status {
        Ok(MZStatus::StreamEnd) => {
            assert!(fl == 3);
            assert!(c.prev_return_status() == TDEFLStatus::Done);
            assert!(r.bytes_consumed == n_in);
            t.ended = true;
        }
        Ok(MZStatus::Ok) => {
            if fl == 3 {
                // Finish keeps working until the stream ends or the output is completely full
                assert!(r.bytes_written == n_out);
            } else {
                // input (or a flush request) and output space => progress
                assert!(r.bytes_consumed > 0 || r.bytes_written > 0 || fl != 0);
                assert!(r.bytes_consumed == n_in || r.bytes_written == n_out);
            }
        }
        Err(MZError::Buf) => {
            // only "nothing to do": no input, no flush request, nothing moved
            assert!(fl == 0 && n_in == 0 && r.bytes_consumed == 0 && r.bytes_written == 0);
        }
        _ => assert!(false),
    }
    if fl == 3 {
        t.finish_seen = true;
    }
    kani::cover!(r.status == Ok(MZStatus::StreamEnd));
    kani::cover!(r.status == Ok(MZStatus::Ok) && fl == 3);
    kani::cover!(r.status == Err(MZError::Buf));
}

/// C14: every sequence of three deflate() calls on a fresh compressor, any core behaviour within K1-K5.
#[kani::proof]
#[kani::unwind(8)]
#[kani::stub(dcore::compress, compress_contract)]
fn w_deflate_seq3() {
    unsafe {
        K_CALLS = 0;
        K_FINISH_SEEN = false;
    }
    let mut c = CompressorOxide::new(0x1000 | 128);
    let mut t = DTrack { ended: false, finish_seen: false, errored: false };
    deflate_call(&mut c, &mut t);
    deflate_call(&mut c, &mut t);
    deflate_call(&mut c, &mut t);
}

// ------------------------------------------------------------------------------------------
// C01: compress_to_vec grow-and-retry loop over the contract stub.
use miniz_oxide::deflate::{compress_to_vec, compress_to_vec_zlib};

pub static mut KG: [u8; 16] = [0; 16];
pub static mut KG_N: usize = 0;

/// `compress_contract` that also writes fresh bytes (logged) into the part of the output it claims.
pub fn compress_contract_writing(
    d: &mut CompressorOxide,
    in_buf: &[u8],
    out_buf: &mut [u8],
    flush: TDEFLFlush,
) -> (TDEFLStatus, usize, usize) {
    let r = compress_contract(d, in_buf, out_buf, flush);
    unsafe {
        let mut i = 0;
        while i < r.2 {
            let b: u8 = kani::any();
            out_buf[i] = b;
            kani::assume(KG_N < 12); // harness bound on the total compressed size
            KG[KG_N] = b;
            KG_N += 1;
            i += 1;
        }
    }
    r
}

/// C01: the vector helpers return exactly the bytes the core emitted, in order, and the
/// "Bug!" panic is unreachable for any core behaviour within K1-K5.
#[kani::proof]
#[kani::unwind(14)]
#[kani::stub(dcore::compress, compress_contract_writing)]
fn w_compress_to_vec() {
    unsafe {
        K_CALLS = 0;
        K_FINISH_SEEN = false;
        KG_N = 0;
    }
    let data: [u8; 3] = kani::any();
    let n: usize = kani::any();
    kani::assume(n <= 3);
    let level: u8 = kani::any();
    let zlib: bool = kani::any();
    let v = if zlib { compress_to_vec_zlib(&data[..n], level) } else { compress_to_vec(&data[..n], level) };
    assert!(v.len() == unsafe { KG_N });
    let mut i = 0;
    while i < v.len() {
        assert!(v[i] == unsafe { KG[i] });
        i += 1;
    }
    kani::cover!(v.len() > 8);
    kani::cover!(unsafe { K_CALLS } > 2);
    core::mem::forget(v);
}

// ------------------------------------------------------------------------------------------
// C02/C14/C12: prologue (pending-output drain, Finish stickiness) and epilogue (final flush,
// Full-flush history cut) of the real compress_inner, from a compressor whose scalar state is
// arbitrary. Back ends and flush_block are marker stubs.

/// Whole-slice model of `<[T]>::fill` for the compressor's 32 K-element arrays (the real
/// per-element loop cannot be unrolled). Other lengths are outside this model.
pub fn fill_model<T: Clone>(s: &mut [T], value: T) {
    let n = s.len();
    if core::mem::size_of::<T>() == 2 && n == 32768 {
        let v: u16 = unsafe { core::mem::transmute_copy(&value) };
        let p = s.as_mut_ptr() as *mut [u16; 32768];
        unsafe { *p = [v; 32768] };
    } else if core::mem::size_of::<T>() == 1 && n == 33026 {
        let v: u8 = unsafe { core::mem::transmute_copy(&value) };
        let p = s.as_mut_ptr() as *mut [u8; 33026];
        unsafe { *p = [v; 33026] };
    } else {
        kani::assume(false);
    }
}

fn any_flush() -> TDEFLFlush {
    let f: u8 = kani::any();
    match f % 8 {
        0 => TDEFLFlush::None,
        1 => TDEFLFlush::Partial,
        2 => TDEFLFlush::Sync,
        3 => TDEFLFlush::Full,
        4 => TDEFLFlush::Finish,
        5 => TDEFLFlush::PartialOpt,
        6 => TDEFLFlush::SyncOpt,
        _ => TDEFLFlush::NoSync,
    }
}

/// Pending output is delivered before anything else happens; the remembered status is the returned one;
/// Finish is sticky; a previous error refuses everything.
fn drain(rem: u32, n_out: usize) {
    let lvl: u8 = kani::any();
    kani::assume(lvl <= 2);
    let mut c = CompressorOxide::new(dcore::create_comp_flags_from_zip_params(lvl as i32, 1, 0));
    let mut s = c.verif_scalars();
    // pending byte count and output size are concrete per family member, everything else symbolic
    let ofs: u32 = 7;
    s.flush_remaining = rem;
    s.flush_ofs = ofs;
    s.finished = kani::any();
    s.flush = any_flush();
    let prev: u8 = kani::any();
    s.prev_return_status = match prev % 4 {
        0 => TDEFLStatus::Okay,
        1 => TDEFLStatus::Done,
        2 => TDEFLStatus::BadParam,
        _ => TDEFLStatus::PutBufFailed,
    };
    s.saved_lit = 0;
    // after Finish was accepted, "finished" or pending output is what remains of the stream
    let prev_flush = s.flush;
    let finished = s.finished;
    c.verif_set_scalars(&s);
    let v: [u8; 3] = kani::any();
    c.verif_set_local_buf(ofs as usize, v[0]);
    c.verif_set_local_buf(ofs as usize + 1, v[1]);
    c.verif_set_local_buf(ofs as usize + 2, v[2]);
    let input: [u8; 2] = kani::any();
    let n_in: usize = kani::any();
    kani::assume(n_in <= 2);
    let mut out = [0u8; 4];
    let flush = any_flush();
    let pending = rem != 0 || finished;
    kani::assume(pending || s.prev_return_status != TDEFLStatus::Okay || (prev_flush == TDEFLFlush::Finish && flush != TDEFLFlush::Finish));
    let r = compress(&mut c, &input[..n_in], &mut out[..n_out], flush);
    let a = c.verif_scalars();
    // the remembered status is always the returned one
    assert!(c.prev_return_status() == r.0);
    if s.prev_return_status != TDEFLStatus::Okay || (prev_flush == TDEFLFlush::Finish && flush != TDEFLFlush::Finish) {
        assert!(r.0 == TDEFLStatus::BadParam && r.1 == 0 && r.2 == 0);
        assert!(a.flush_remaining == rem && a.flush_ofs == ofs);
        assert!(c.verif_route_mark() == 0);
    } else {
        // pending output first: no back end, no input consumed, exactly min(space, pending) bytes copied
        assert!(c.verif_route_mark() == 0);
        let n = if (rem as usize) < n_out { rem as usize } else { n_out };
        assert!(r.1 == 0 && r.2 == n);
        let mut i = 0;
        while i < n {
            assert!(out[i] == v[i]);
            i += 1;
        }
        assert!(a.flush_remaining == rem - n as u32 && a.flush_ofs == ofs + n as u32);
        assert!((r.0 == TDEFLStatus::Done) == (finished && rem as usize == n));
        assert!(r.0 == TDEFLStatus::Done || r.0 == TDEFLStatus::Okay);
    }
    kani::cover!(r.0 == TDEFLStatus::Done || (rem as usize) > n_out);
    kani::cover!(r.0 == TDEFLStatus::Okay || rem == 0);
    kani::cover!(r.0 == TDEFLStatus::BadParam);
    core::mem::forget(c);
}


macro_rules! drain_harness {
    ($name:ident, $rem:expr, $n_out:expr) => {
        #[kani::proof]
        #[kani::unwind(6)]
        #[kani::stub(dcore::compress_fast, dcore::verif::mark_compress_fast)]
        #[kani::stub(dcore::compress_normal, dcore::verif::mark_compress_normal)]
        #[kani::stub(dcore::compress_stored, dcore::verif::mark_compress_stored)]
        #[kani::stub(dcore::flush_block, dcore::verif::mark_flush_block)]
        fn $name() {
            drain($rem, $n_out)
        }
    };
}
drain_harness!(w_compress_drain_r2_o1, 2, 1);
drain_harness!(w_compress_drain_r2_o4, 2, 4);
drain_harness!(w_compress_drain_r0_o4, 0, 4);
drain_harness!(w_compress_drain_r3_o3, 3, 3);

/// Epilogue: with nothing pending and the look-ahead empty, a flush request runs the final
/// flush_block exactly once; Finish marks the stream finished; Full cuts the history
/// (dictionary size 0, hash chains cleared); other modes keep it.
#[kani::proof]
#[kani::unwind(6)]
#[kani::stub(dcore::compress_fast, dcore::verif::mark_compress_fast)]
#[kani::stub(dcore::compress_normal, dcore::verif::mark_compress_normal)]
#[kani::stub(dcore::compress_stored, dcore::verif::mark_compress_stored)]
#[kani::stub(dcore::flush_block, dcore::verif::mark_flush_block)]
#[kani::stub(<[u16]>::fill, fill_model)]
fn w_compress_tail() {
    compress_tail(1, 2, 0)
}

#[kani::proof]
#[kani::unwind(6)]
#[kani::stub(dcore::compress_fast, dcore::verif::mark_compress_fast)]
#[kani::stub(dcore::compress_normal, dcore::verif::mark_compress_normal)]
#[kani::stub(dcore::compress_stored, dcore::verif::mark_compress_stored)]
#[kani::stub(dcore::flush_block, dcore::verif::mark_flush_block)]
#[kani::stub(<[u16]>::fill, fill_model)]
fn w_compress_tail_zlib() {
    compress_tail(2, 4, 1)
}

fn compress_tail(lo: u8, hi: u8, wb: i32) {
    let lvl: u8 = kani::any();
    kani::assume(lvl >= lo && lvl <= hi);
    let mut c = CompressorOxide::new(dcore::create_comp_flags_from_zip_params(lvl as i32, wb, 0));
    let mut s = c.verif_scalars();
    let dsz: usize = kani::any();
    kani::assume(dsz <= 32768);
    s.dict_size = dsz;
    s.lookahead_size = kani::any();
    kani::assume(s.lookahead_size <= 2);
    s.saved_lit = 0;
    let la = s.lookahead_size;
    c.verif_set_scalars(&s);
    let mut out = [0u8; 4];
    let flush = any_flush();
    let r = compress(&mut c, &[], &mut out, flush);
    let a = c.verif_scalars();
    let mark = c.verif_route_mark();
    assert!(r.1 == 0 && r.2 == 0);
    assert!(mark & 3 != 0); // a back end ran
    let flushed = mark & dcore::verif::MARK_FLUSH_BLOCK != 0;
    // the final flush happens only for a flush request with an empty look-ahead
    assert!(flushed == (flush != TDEFLFlush::None && la == 0));
    assert!(a.finished == (flushed && flush == TDEFLFlush::Finish));
    assert!((r.0 == TDEFLStatus::Done) == a.finished);
    if flushed && flush == TDEFLFlush::Full {
        assert!(a.dict_size == 0);
        let i: usize = kani::any();
        kani::assume(i < 32768);
        assert!(c.verif_hash(i) == 0 && c.verif_next(i) == 0);
    } else {
        assert!(a.dict_size == dsz);
    }
    kani::cover!(flushed && flush == TDEFLFlush::Full && dsz > 0);
    kani::cover!(!flushed && flush == TDEFLFlush::Sync);
    core::mem::forget(c);
}


// ------------------------------------------------------------------------------------------
// C18: CompressorOxide::reset() from a completely arbitrary state equals a new compressor.

fn scalars_equal(a: &dcore::verif::Scalars, b: &dcore::verif::Scalars) -> bool {
    a.flags == b.flags
        && a.greedy_parsing == b.greedy_parsing
        && a.window_bits_max == b.window_bits_max
        && a.block_index == b.block_index
        && a.saved_match_dist == b.saved_match_dist
        && a.saved_match_len == b.saved_match_len
        && a.saved_lit == b.saved_lit
        && a.flush == b.flush
        && a.flush_ofs == b.flush_ofs
        && a.flush_remaining == b.flush_remaining
        && a.finished == b.finished
        && a.adler32 == b.adler32
        && a.src_pos == b.src_pos
        && a.out_buf_ofs == b.out_buf_ofs
        && a.prev_return_status == b.prev_return_status
        && a.saved_bit_buffer == b.saved_bit_buffer
        && a.saved_bits_in == b.saved_bits_in
        && a.lz_code_position == b.lz_code_position
        && a.lz_flag_position == b.lz_flag_position
        && a.lz_total_bytes == b.lz_total_bytes
        && a.lz_num_flags_left == b.lz_num_flags_left
        && a.max_probes[0] == b.max_probes[0]
        && a.max_probes[1] == b.max_probes[1]
        && a.code_buf_dict_pos == b.code_buf_dict_pos
        && a.lookahead_size == b.lookahead_size
        && a.lookahead_pos == b.lookahead_pos
        && a.dict_size == b.dict_size
        && a.loop_len == b.loop_len
}

/// Whatever the compressor was used for (every scalar and every array arbitrary: mid-block,
/// pending output, saved lazy match, error status, any hash chains), reset() leaves it in the state of
/// `CompressorOxide::new(flags)`; equal state => byte-identical behaviour (safe, deterministic code).
#[kani::proof]
#[kani::unwind(6)]
#[kani::stub(<[u16]>::fill, fill_model)]
fn w_compressor_reset() {
    let lvl: u8 = kani::any();
    let zl: bool = kani::any();
    let strat: u8 = kani::any();
    kani::assume(lvl <= 10 && strat <= 4);
    let flags = dcore::create_comp_flags_from_zip_params(lvl as i32, zl as i32, strat as i32);
    let mut c = CompressorOxide::new(flags);
    c.verif_havoc_state();
    c.reset();
    let fresh = CompressorOxide::new(flags);
    assert!(scalars_equal(&c.verif_scalars(), &fresh.verif_scalars()));
    let i: usize = kani::any();
    kani::assume(i < 32768);
    assert!(c.verif_hash(i) == 0 && c.verif_next(i) == 0);
    let j: usize = kani::any();
    kani::assume(j < 33026);
    assert!(c.verif_dict(j) == 0);
    let k: usize = kani::any();
    kani::assume(k < 65536);
    assert!(c.verif_lz_code(k) == 0);
    let m: usize = kani::any();
    kani::assume(m < 85196);
    assert!(c.verif_local_buf(m) == 0);
    let t: usize = kani::any();
    let n: usize = kani::any();
    kani::assume(t < 3 && n < 288);
    assert!(c.verif_huff_count(t, n) == 0 && c.verif_huff_code(t, n) == 0 && c.verif_huff_code_size(t, n) == 0);
    kani::cover!(lvl == 10 && zl, "end reached");
    core::mem::forget(c);
    core::mem::forget(fresh);
}
