//! L tier: leaf kernels, all arguments symbolic at full width.
use crate::refs::*;
use miniz_oxide::inflate::core as mzcore;
use miniz_oxide::inflate::core::inflate_flags::*;

/// C09/C04: validate_zlib_header accepts exactly the RFC 1950 headers whose window fits.
#[kani::proof]
fn l_zlib_header_accept() {
    let cmf: u8 = kani::any();
    let flg: u8 = kani::any();
    let flags: u32 = kani::any();
    let k: u32 = kani::any();
    kani::assume(k <= 20);
    // ring size 2^k (mask = size-1) or zero-length (mask 0)
    let mask: usize = (1usize << k) - 1;
    let ok = mzcore::verif::validate_zlib_header_ok(cmf as u32, flg as u32, flags, mask);
    let window = 1usize << ((cmf >> 4) as u32 + 8);
    let fits = (flags & TINFL_FLAG_USING_NON_WRAPPING_OUTPUT_BUF) != 0 || mask + 1 >= window;
    let expect = rfc1950_header_ok(cmf as u32, flg as u32) && fits;
    assert!(ok == expect);
    kani::cover!(ok);
    kani::cover!(!ok);
}

/// C06: undo_bytes gives back min(num_bits/8, max) whole bytes and keeps the rest.
#[kani::proof]
fn l_undo_bytes() {
    let num_bits: u32 = kani::any();
    let max: u32 = kani::any();
    kani::assume(num_bits <= 64);
    let (res, left) = mzcore::verif::undo_bytes_hook(num_bits, max);
    let expect = core::cmp::min(num_bits / 8, max);
    assert!(res == expect);
    assert!(left == num_bits - 8 * expect);
    kani::cover!(res == 8);
    kani::cover!(res < num_bits / 8);
}

use miniz_oxide::deflate::core as dcore;
use miniz_oxide::deflate::core::deflate_flags::*;
use miniz_oxide::deflate::core::{create_comp_flags_from_zip_params, CompressionStrategy};

/// Hook sanity: state ids are the enum's declaration order (so injected states are what they say).
#[kani::proof]
fn l_state_ids() {
    let id: u8 = kani::any();
    if mzcore::verif::state_id_valid(id) {
        assert!(id < mzcore::verif::NUM_STATES);
        let mut d = mzcore::DecompressorOxide::new();
        let mut regs = d.verif_regs();
        regs.state = id;
        assert!(d.verif_set_regs(&regs));
        assert!(d.verif_state_id() == id);
        assert!(d.verif_state_is_failure() == (id >= mzcore::verif::FIRST_FAILURE_STATE));
    } else {
        assert!(id >= mzcore::verif::NUM_STATES);
    }
}

/// C03: decoder base/extra tables equal RFC 1951 §3.2.5 for every length and distance symbol.
#[kani::proof]
fn l_inflate_rfc_tables() {
    let i: u32 = kani::any();
    kani::assume(i < 29);
    let (lb, le) = rfc_length(i);
    assert!(mzcore::verif::length_base(i as usize) as u32 == lb);
    assert!(mzcore::verif::length_extra(i as usize) as u32 == le);
    let j: u32 = kani::any();
    kani::assume(j < 30);
    let (db, de) = rfc_dist(j);
    assert!(mzcore::verif::dist_base(j as usize) as u32 == db);
    assert!(mzcore::verif::dist_extra(j as u8) as u32 == de);
    // filler entries used for the invalid symbols 286/287 can never produce a length < 3
    let k: usize = kani::any();
    kani::assume(k >= 29 && k < 32);
    assert!(mzcore::verif::length_base(k) >= 259);
    let m = mzcore::verif::min_table_sizes();
    assert!(m[0] == 257 && m[1] == 1 && m[2] == 4);
}

/// C09/C11: header_from_flags is a valid RFC 1950 header with CINFO = max(w,8)-8 for all flags, w <= 15.
#[kani::proof]
fn l_header_from_flags() {
    let flags: u32 = kani::any();
    let w: u8 = kani::any();
    kani::assume(w <= 15);
    let h = dcore::verif::header_from_flags(flags, w);
    let (cmf, flg) = (h[0] as u32, h[1] as u32);
    assert!(rfc1950_header_ok(cmf, flg));
    assert!((cmf * 256 + flg) % 31 == 0);
    assert!(cmf & 15 == 8);
    assert!(flg & 0x20 == 0);
    let cinfo = cmf >> 4;
    let expect = if w > 8 { w as u32 - 8 } else { 0 };
    assert!(cinfo == expect);
    assert!(cinfo <= 7);
    // the decoder accepts it with a flat buffer
    assert!(mzcore::verif::validate_zlib_header_ok(cmf, flg, TINFL_FLAG_USING_NON_WRAPPING_OUTPUT_BUF, usize::MAX));
    // ... and with a ring exactly as large as the declared window
    assert!(mzcore::verif::validate_zlib_header_ok(cmf, flg, 0, (1usize << (cinfo + 8)) - 1));
    kani::cover!(cinfo == 0);
    kani::cover!(cinfo == 7);
}

/// C01/C10: level/strategy/window -> flag word, all i32 arguments.
#[kani::proof]
fn l_comp_flags() {
    let level: i32 = kani::any();
    let wb: i32 = kani::any();
    let strategy: i32 = kani::any();
    let f = create_comp_flags_from_zip_params(level, wb, strategy);
    let eff = if level < 0 { 6 } else if level > 10 { 10 } else { level };
    assert!(f & 0xFFF == if strategy == 2 && level != 0 { 0 } else { dcore::verif::num_probes(eff as usize) as u32 });
    assert!((f & TDEFL_GREEDY_PARSING_FLAG != 0) == (level <= 3));
    assert!((f & TDEFL_WRITE_ZLIB_HEADER != 0) == (wb > 0));
    assert!((f & TDEFL_FORCE_ALL_RAW_BLOCKS != 0) == (level == 0));
    assert!((f & TDEFL_FILTER_MATCHES != 0) == (level != 0 && strategy == 1));
    assert!((f & TDEFL_RLE_MATCHES != 0) == (level != 0 && strategy == 3));
    assert!((f & TDEFL_FORCE_ALL_STATIC_BLOCKS != 0) == (level != 0 && strategy == 4));
    assert!(f & TDEFL_COMPUTE_ADLER32 == 0 && f & TDEFL_NONDETERMINISTIC_PARSING_FLAG == 0);
    assert!(f >> 20 == 0);
    // values above 10 behave as 10
    if level > 10 {
        assert!(f == create_comp_flags_from_zip_params(10, wb, strategy));
    }
    // what the one-shot API passes: level as u8 widened, window_bits in {0,1}, strategy 0
    let l8: u8 = kani::any();
    let z: bool = kani::any();
    let g = create_comp_flags_from_zip_params(l8 as i32, z as i32, 0);
    assert!((g & TDEFL_FORCE_ALL_RAW_BLOCKS != 0) == (l8 == 0));
    assert!(g & 0xFFF == dcore::verif::num_probes(core::cmp::min(l8, 10) as usize) as u32);
    kani::cover!(level > 10);
    kani::cover!(level < 0);
    kani::cover!(level == 0 && strategy == 3);
}

/// C05/C08: OutputBuffer geometry: max = min(pos + budget, len) without overflow, bytes_left = max - pos.
#[kani::proof]
fn l_outbuf_geometry() {
    let mut buf = [0u8; 8];
    let len: usize = kani::any();
    kani::assume(len <= 8);
    let pos: usize = kani::any();
    let budget: usize = kani::any();
    kani::assume(pos <= len); // decompress_with_limit rejects out_pos > len before constructing it
    let (max, left) = mzcore::verif::output_buffer_geometry(&mut buf[..len], pos, budget);
    let want = if budget >= len - pos { len } else { pos + budget };
    assert!(max == want);
    assert!(left == want - pos);
    assert!(max <= len && left <= budget);
    kani::cover!(budget == usize::MAX);
    kani::cover!(left == 0 && len > 0);
    kani::cover!(left < len - pos);
}

/// C10: for every match (len 3..=258, dist 1..=32768) the real record_match + compress_lz_codes emit
/// exactly the RFC 1951 length symbol, extra bits, distance symbol and extra bits, then end-of-block.
#[kani::proof]
#[kani::unwind(7)]
fn l_emit_one_match() {
    let len: u32 = kani::any();
    let dist: u32 = kani::any();
    kani::assume(len >= 3 && len <= 258);
    kani::assume(dist >= 1 && dist <= 32768);
    let r = dcore::verif::emit_one_match(len, dist);
    let (ls, le, lx) = len_to_sym_closed(len);
    let (ds, de, dx) = dist_to_sym_closed(dist);
    assert!(ls < 29 && ds < 30);
    let v = u64::from_le_bytes(r.bytes);
    let mut sh = 0u32;
    assert!((v >> sh) & 0x1FF == (257 + ls) as u64);
    sh += 9;
    assert!((v >> sh) & ((1u64 << le) - 1) == lx as u64);
    sh += le;
    assert!((v >> sh) & 0x1F == ds as u64);
    sh += 5;
    assert!((v >> sh) & ((1u64 << de) - 1) == dx as u64);
    sh += de;
    assert!((v >> sh) & 0x1FF == 256);
    sh += 9;
    assert!(r.len == ((sh + 7) / 8) as usize);
    assert!(v >> sh == 0);
    assert!(r.total_bytes == len);
    // frequency tables: exactly the emitted symbols were counted
    let i: usize = kani::any();
    kani::assume(i < 288);
    assert!(r.count0[i] == if i == (257 + ls) as usize { 1 } else { 0 });
    let j: usize = kani::any();
    kani::assume(j < 288);
    assert!(r.count1[j] == if j == ds as usize { 1 } else { 0 });
    kani::cover!(len == 258 && dist == 32768);
    kani::cover!(len == 3 && dist == 1);
    kani::cover!(dist == 513);
}
