//! U tier: the LZ77 copy kernels on a small buffer, all positions/distances/lengths/contents.
use miniz_oxide::inflate::core as mzcore;

const N: usize = 16;

/// byte-by-byte LZ77 copy: the specification of a match
fn lz77_ref(buf: &mut [u8; N], out_pos: usize, dist: usize, len: usize, mask: usize) {
    let mut i = 0;
    while i < len {
        let src = (out_pos + i).wrapping_sub(dist) & mask;
        buf[out_pos + i] = buf[src];
        i += 1;
    }
}

/// C03/C08: apply_match on a flat buffer = LZ77 copy semantics (overlap, dist-1 run, len-3 path),
/// and nothing outside [out_pos, out_pos+len) changes.
#[kani::proof]
#[kani::unwind(11)]
fn u_apply_match_flat() {
    let mut buf: [u8; N] = kani::any();
    let out_pos: usize = kani::any();
    let dist: usize = kani::any();
    let len: usize = kani::any();
    // call-site preconditions (HuffDecodeOuterLoop2 / decompress_fast): a valid match that fits
    kani::assume(len >= 3 && len <= 9);
    kani::assume(out_pos <= N && len <= N - out_pos);
    kani::assume(dist >= 1 && dist <= out_pos);
    let mut want = buf;
    lz77_ref(&mut want, out_pos, dist, len, usize::MAX);
    mzcore::verif::apply_match_hook(&mut buf, out_pos, dist, len, usize::MAX);
    let j: usize = kani::any();
    kani::assume(j < N);
    assert!(buf[j] == want[j]);
    kani::cover!(dist == 1 && len == 9);
    kani::cover!(len == 3);
    kani::cover!(dist < len && dist > 1);
    kani::cover!(dist >= len && len > 3);
}

/// C03/C08: transfer as WriteLenBytesToEnd calls it (partial match copy up to the end of the granted window), flat.
#[kani::proof]
#[kani::unwind(11)]
fn u_transfer_flat() {
    let mut buf: [u8; N] = kani::any();
    let out_pos: usize = kani::any();
    let dist: usize = kani::any();
    let len: usize = kani::any();
    kani::assume(len >= 1 && len <= 9);
    kani::assume(out_pos <= N && len <= N - out_pos);
    kani::assume(dist >= 1 && dist <= out_pos);
    let mut want = buf;
    lz77_ref(&mut want, out_pos, dist, len, usize::MAX);
    mzcore::verif::transfer_hook(&mut buf, out_pos - dist, out_pos, len, usize::MAX);
    let j: usize = kani::any();
    kani::assume(j < N);
    assert!(buf[j] == want[j]);
    kani::cover!(len == 1);
    kani::cover!(len == 9 && dist == 1);
}

/// C03/C08: the kernels with a 16-byte ring (mask 15): source may wrap, destination never does.
#[kani::proof]
#[kani::unwind(11)]
fn u_copy_ring() {
    let mut buf: [u8; N] = kani::any();
    let out_pos: usize = kani::any();
    let dist: usize = kani::any();
    let len: usize = kani::any();
    let use_transfer: bool = kani::any();
    kani::assume(len >= 1 && len <= 9);
    kani::assume(out_pos < N && len <= N - out_pos);
    kani::assume(dist >= 1 && dist <= N); // a distance beyond the ring is rejected before the copy
    let mask = N - 1;
    let source_pos = out_pos.wrapping_sub(dist) & mask;
    let overlaps_forward = source_pos >= out_pos && (source_pos - out_pos) < len;
    let mut want = buf;
    lz77_ref(&mut want, out_pos, dist, len, mask);
    if use_transfer {
        mzcore::verif::transfer_hook(&mut buf, source_pos, out_pos, len, mask);
    } else {
        // apply_match is only reached when the source does not run into the bytes being written
        kani::assume(len >= 3 && !overlaps_forward);
        mzcore::verif::apply_match_hook(&mut buf, out_pos, dist, len, mask);
    }
    let j: usize = kani::any();
    kani::assume(j < N);
    assert!(buf[j] == want[j]);
    kani::cover!(use_transfer && source_pos > out_pos);
    kani::cover!(!use_transfer && source_pos > out_pos);
    kani::cover!(dist == N);
}
