//! Native replay / reference-validation binary. Runs the real miniz_oxide build (dev or
//! release profile) on concrete values taken from a solver counterexample.
mod inflate_ref;

use inflate_ref::{inflate, Token};
use miniz_oxide::deflate::core::{
    compress, CompressionStrategy, CompressorOxide, TDEFLFlush, TDEFLStatus,
};
use miniz_oxide::DataFormat;
use std::process::exit;

fn strategy(n: i32) -> CompressionStrategy {
    match n {
        1 => CompressionStrategy::Filtered,
        2 => CompressionStrategy::HuffmanOnly,
        3 => CompressionStrategy::RLE,
        4 => CompressionStrategy::Fixed,
        _ => CompressionStrategy::Default,
    }
}

/// Input with redundancy only at distances > 1 and both below and beyond small windows:
/// a 16-byte pattern, a low-entropy gap without runs, the pattern again, for several gaps.
pub fn probe_input() -> Vec<u8> {
    let pat: Vec<u8> = (0..16u8).map(|i| 0x41 + (i * 7) % 23).collect();
    let mut v = Vec::new();
    let mut x: u32 = 12345;
    for gap in [12usize, 300, 1100, 2500, 5000, 9000, 20000] {
        v.extend_from_slice(&pat);
        let mut last = 0u8;
        for _ in 0..gap {
            x = x.wrapping_mul(1664525).wrapping_add(1013904223);
            let mut c = 0x61 + ((x >> 24) & 15) as u8;
            if c == last {
                c = 0x61 + ((c - 0x61 + 1) & 15);
            }
            last = c;
            v.push(c);
        }
        v.extend_from_slice(&pat);
    }
    v
}

fn compress_all(c: &mut CompressorOxide, input: &[u8]) -> Vec<u8> {
    let mut out = vec![0u8; input.len() * 2 + 1024];
    let (st, consumed, written) = compress(c, input, &mut out, TDEFLFlush::Finish);
    assert_eq!(st, TDEFLStatus::Done);
    assert_eq!(consumed, input.len());
    out.truncate(written);
    out
}

/// Replay of the routing harness' counterexample: run the real compressor in the reported
/// configuration and check the token-level clauses of C10/C11 with the independent inflater.
fn cmd_route(args: &[String]) -> i32 {
    let fmt = args[0].as_str();
    let level: u8 = args[1].parse().unwrap();
    let strat: i32 = args[2].parse().unwrap();
    let wbits: u8 = args[3].parse().unwrap();
    let format = if fmt == "zlib" { DataFormat::Zlib } else { DataFormat::Raw };
    let mut c = CompressorOxide::with_params(format, level, strategy(strat), wbits);
    let input = probe_input();
    let out = compress_all(&mut c, &input);
    let d = match inflate(&out, fmt == "zlib") {
        Ok(d) => d,
        Err(e) => {
            println!("REPRODUCED C10 reference inflater rejects output: {:?}", e);
            return 1;
        }
    };
    let mut bad = 0;
    if d.out != input {
        println!("REPRODUCED C10 output does not decode to the input");
        bad += 1;
    }
    let eff_level = level.min(10);
    let w = wbits.min(15);
    let rle_requested = strat == 3 && eff_level != 0;
    let rle_forced = w < 12 && strat != 2 && eff_level != 0;
    println!(
        "config fmt={} level={} strategy={} window_bits={} -> max_dist={} min_len={} cmf={:?} blocks(stored,fixed,dyn)={:?} out_len={}",
        fmt, level, strat, wbits, d.max_dist, d.min_len, d.cmf, d.block_types, out.len()
    );
    if rle_requested && d.max_dist > 1 {
        println!("REPRODUCED C10 RLE strategy requested but a match with distance {} was emitted", d.max_dist);
        bad += 1;
    }
    if let Some(cmf) = d.cmf {
        let declared = 1u32 << ((cmf >> 4) as u32 + 8);
        if d.max_dist > declared {
            println!(
                "REPRODUCED C11 header declares a {}-byte window (CMF {:#04x}) but a match reaches back {} bytes (forced RLE: {})",
                declared, cmf, d.max_dist, rle_forced
            );
            bad += 1;
        }
    }
    if eff_level == 0 && (d.block_types[1] != 0 || d.block_types[2] != 0) {
        println!("REPRODUCED C10 level 0 emitted a Huffman block");
        bad += 1;
    }
    if strat == 4 && eff_level != 0 && d.block_types[2] != 0 {
        println!("REPRODUCED C10 fixed strategy emitted a dynamic block");
        bad += 1;
    }
    if strat == 2 && d.max_dist != 0 {
        println!("REPRODUCED C10 huffman-only emitted a match");
        bad += 1;
    }
    if strat == 1 && eff_level != 0 && !rle_forced && d.min_len < 5 {
        // the property: no match shorter than 5
        println!("REPRODUCED C10 filtered strategy emitted a match of length {}", d.min_len);
        bad += 1;
    }
    if d.final_blocks != 1 {
        println!("REPRODUCED C10 {} final blocks", d.final_blocks);
        bad += 1;
    }
    if bad == 0 {
        println!("NOT-REPRODUCED");
        0
    } else {
        1
    }
}

/// Replay for the C-API init misuse harness: call the real extern "C" init functions with the
/// solver's parameter values in a child process; a crash (panic=abort) instead of an error code
/// is the violation.
fn cmd_capi_init(args: &[String]) -> i32 {
    let exe = std::env::current_exe().unwrap();
    let out = std::process::Command::new(exe).arg("capi-init-child").args(args).output().unwrap();
    let so = String::from_utf8_lossy(&out.stdout).to_string();
    let se = String::from_utf8_lossy(&out.stderr).to_string();
    print!("{}", so);
    if !out.status.success() {
        let last = se.lines().filter(|l| l.contains("panicked") || l.contains("overflow")).collect::<Vec<_>>().join(" | ");
        println!("REPRODUCED C17 init call with (level, method, window_bits, mem_level, strategy) = {:?} crashed ({:?}) instead of returning an error code: {}", args, out.status, last);
        return 1;
    }
    if so.contains("MISMATCH") {
        println!("REPRODUCED C17 init call returned an unexpected code");
        return 1;
    }
    println!("NOT-REPRODUCED");
    0
}

fn cmd_capi_init_child(args: &[String]) -> i32 {
    use miniz_oxide_c_api::*;
    let v: Vec<i32> = args.iter().map(|a| a.parse::<i64>().unwrap() as i32).collect();
    let (level, method, wbits, mem, strat) = (v[0], v[1], v[2], v[3], v[4]);
    let ok = method == 8 && (1..=9).contains(&mem) && (wbits == 15 || wbits == -15);
    unsafe {
        let mut s = mz_stream::default();
        let rc = mz_deflateInit2(&mut s, level, method, wbits, mem, strat);
        println!("mz_deflateInit2 -> {}", rc);
        if rc != if ok { 0 } else { -10000 } {
            println!("MISMATCH deflateInit2");
        }
        let mut si = mz_stream::default();
        let rci = mz_inflateInit2(&mut si, wbits);
        println!("mz_inflateInit2 -> {}", rci);
        if rci != if wbits == 15 || wbits == -15 { 0 } else { -10000 } {
            println!("MISMATCH inflateInit2");
        }
    }
    0
}

/// Validates the harness-side reference definitions (the trusted base of the Kani harnesses)
/// against published vectors, against each other and against the real build. Run by setup.sh.
fn cmd_refcheck() -> i32 {
    use mzverif::refs::*;
    let mut bad = 0;
    macro_rules! check {
        ($c:expr, $($m:tt)*) => { if !($c) { println!("REFCHECK-FAIL: {}", format!($($m)*)); bad += 1; } };
    }
    // 1. checksums: published vectors, then the real functions on pseudo-random data incl. NMAX boundaries
    check!(adler32_ref(1, b"Wikipedia") == 0x11E60398, "adler32 vector");
    check!(crc32_ref(0, b"123456789") == 0xCBF43926, "crc32 vector");
    let mut x: u32 = 99;
    let mut data = vec![0u8; 70000];
    for b in data.iter_mut() {
        x = x.wrapping_mul(1103515245).wrapping_add(12345);
        *b = (x >> 16) as u8;
    }
    let ff = vec![0xFFu8; 70000];
    for &n in &[0usize, 1, 2, 3, 4, 5, 15, 16, 17, 31, 32, 33, 63, 64, 65, 5551, 5552, 5553, 11104, 22208, 22209, 65535, 65536, 70000] {
        for buf in [&data, &ff] {
            check!(miniz_oxide::mz_adler32_oxide(1, &buf[..n]) == adler32_ref(1, &buf[..n]), "adler32 real vs ref n={}", n);
            check!(miniz_oxide_c_api::mz_crc32_oxide(0, &buf[..n]) == crc32_ref(0, &buf[..n]), "crc32 real vs ref n={}", n);
            let k = n / 3;
            let s = miniz_oxide::mz_adler32_oxide(1, &buf[..k]);
            check!(miniz_oxide::mz_adler32_oxide(s, &buf[k..n]) == adler32_ref(1, &buf[..n]), "adler32 split n={}", n);
        }
    }
    // 2. RFC 1951 tables as printed in the RFC vs the closed forms used by the harnesses
    const LB: [u32; 29] = [3, 4, 5, 6, 7, 8, 9, 10, 11, 13, 15, 17, 19, 23, 27, 31, 35, 43, 51, 59, 67, 83, 99, 115, 131, 163, 195, 227, 258];
    const LE: [u32; 29] = [0, 0, 0, 0, 0, 0, 0, 0, 1, 1, 1, 1, 2, 2, 2, 2, 3, 3, 3, 3, 4, 4, 4, 4, 5, 5, 5, 5, 0];
    const DB: [u32; 30] = [1, 2, 3, 4, 5, 7, 9, 13, 17, 25, 33, 49, 65, 97, 129, 193, 257, 385, 513, 769, 1025, 1537, 2049, 3073, 4097, 6145, 8193, 12289, 16385, 24577];
    for i in 0..29 {
        check!(rfc_length(i as u32) == (LB[i], LE[i]), "rfc_length {}", i);
    }
    for i in 0..30 {
        let e = if i < 4 { 0 } else { (i as u32) / 2 - 1 };
        check!(rfc_dist(i as u32) == (DB[i], e), "rfc_dist {}", i);
    }
    for len in 3..=258u32 {
        check!(len_to_sym_closed(len) == rfc_len_to_sym(len), "len closed form {}", len);
        let (s, e, x) = rfc_len_to_sym(len);
        check!(s < 29 && LB[s as usize] + x == len && x < (1 << e).max(1), "len decomposition {}", len);
    }
    for d in 1..=32768u32 {
        check!(dist_to_sym_closed(d) == rfc_dist_to_sym(d), "dist closed form {}", d);
        let (s, e, x) = rfc_dist_to_sym(d);
        check!(s < 30 && DB[s as usize] + x == d && x < (1 << e), "dist decomposition {}", d);
    }
    // 3. zlib header predicate
    check!(rfc1950_header_ok(0x78, 0x9c) && rfc1950_header_ok(0x78, 0x01) && rfc1950_header_ok(0x08, 0x1d), "valid headers");
    check!(!rfc1950_header_ok(0x78, 0x9d) && !rfc1950_header_ok(0x78, 0xbb) && !rfc1950_header_ok(0x88, 0x1c) && !rfc1950_header_ok(0x79, 0x18), "invalid headers");
    // 4. independent inflater vs the repo's vector and vs the real compressor at every level
    let hello = [120u8, 156, 243, 72, 205, 201, 201, 215, 81, 168, 202, 201, 76, 82, 4, 0, 27, 101, 4, 19];
    match inflate(&hello, true) {
        Ok(d) => check!(d.out == b"Hello, zlib!" && d.consumed == 20, "inflate_ref hello"),
        Err(e) => check!(false, "inflate_ref hello: {:?}", e),
    }
    let input = probe_input();
    for level in 0..=10u8 {
        for zl in [false, true] {
            let c = if zl { miniz_oxide::deflate::compress_to_vec_zlib(&input, level) } else { miniz_oxide::deflate::compress_to_vec(&input, level) };
            match inflate(&c, zl) {
                Ok(d) => check!(d.out == input && d.consumed == c.len() && d.final_blocks == 1, "inflate_ref roundtrip level {} zlib {}", level, zl),
                Err(e) => check!(false, "inflate_ref rejects level {} zlib {}: {:?}", level, zl, e),
            }
        }
    }
    // 5. stored reference decoder + the level-0 size formula used by the C15 harness
    for &n in &[0usize, 1, 2, 3, 16] {
        let c = miniz_oxide::deflate::compress_to_vec_zlib(&data[..n], 0);
        let d = stored_decode_ref(&c, true);
        check!(d.ok && d.complete && d.n == n && d.consumed == c.len() && d.data[..n] == data[..n], "stored_decode_ref n={}", n);
    }
    for &n in &[0usize, 1, 31744, 31745, 31746, 63489, 63490, 63491, 69999] {
        let c = miniz_oxide::deflate::compress_to_vec_zlib(&data[..n], 0);
        check!(c.len() == n + 6 + 5 * (n / 31745 + 1), "level-0 zlib size formula n={} got {}", n, c.len());
        check!(c.len() as u64 <= miniz_oxide_c_api::mz_deflateBound(std::ptr::null_mut(), n as _) as u64, "bound n={}", n);
    }
    if bad == 0 {
        println!("refcheck: all reference definitions agree with published vectors and the real build");
        0
    } else {
        1
    }
}

/// Code-length sets whose decode tables the Huffman-arm harnesses use.
pub fn table_sets() -> Vec<(&'static str, Vec<u8>, Vec<u8>)> {
    let mut v = Vec::new();
    // DYNB: a complete dynamic code with every code length 1..=15, three length symbols incl. 258,
    // near and far distance symbols (with 0, 1, 4 and 13 extra bits)
    let mut lit = vec![0u8; 286];
    for (sym, len) in [(97usize, 1u8), (98, 2), (256, 3), (257, 4), (264, 5), (265, 6), (285, 7), (99, 8), (100, 9),
                       (101, 10), (102, 11), (103, 12), (104, 13), (105, 14), (106, 15), (107, 15)] {
        lit[sym] = len;
    }
    let mut dist = vec![0u8; 30];
    for (sym, len) in [(0usize, 1u8), (1, 2), (4, 3), (10, 4), (29, 4)] {
        dist[sym] = len;
    }
    v.push(("DYNB", lit, dist));
    v
}

/// Builds Huffman decode tables with the REAL init_tree of the current /repo tree (natively) and
/// prints them as Rust constants; the Kani harnesses install them with verif_load_table, because
/// symbolic execution of init_tree itself is out of reach (DESIGN.md 3.2).
fn cmd_dump_tables() -> i32 {
    use miniz_oxide::inflate::core::verif as v;
    use miniz_oxide::inflate::core::DecompressorOxide;
    println!("// @generated by `mzreplay dump-tables` from the real init_tree of /repo's working tree - do not edit.");
    let emit = |name: &str, d: &DecompressorOxide, lit: &[u8], dist: &[u8]| {
        for (t, tn) in [(0usize, "L"), (1, "D")] {
            let (lu, tr) = d.verif_table_snapshot(t);
            println!("pub const {}_{}_LOOKUP: [i16; 1024] = {:?};", name, tn, lu);
            println!("pub const {}_{}_TREE: [i16; 576] = {:?};", name, tn, tr);
        }
        println!("pub const {}_LIT_LENS: [u8; {}] = {:?};", name, lit.len(), lit);
        println!("pub const {}_DIST_LENS: [u8; {}] = {:?};", name, dist.len(), dist);
    };
    // fixed block tables: start_static_table + init_tree
    let mut d = DecompressorOxide::new();
    let mut regs = d.verif_regs();
    regs.block_type = 1;
    d.verif_set_regs(&regs);
    v::start_static_table_hook(&mut d);
    let r = v::init_tree_hook(&mut d);
    if r != 1 {
        eprintln!("init_tree refused the fixed code lengths: {}", r);
        return 1;
    }
    let lit: Vec<u8> = (0..288).map(|i| d.verif_code_size_literal(i)).collect();
    let dist: Vec<u8> = (0..32).map(|i| d.verif_code_size_dist(i)).collect();
    emit("FIXED", &d, &lit, &dist);
    for (name, lit, dist) in table_sets() {
        let mut d = DecompressorOxide::new();
        let mut regs = d.verif_regs();
        regs.block_type = 1;
        d.verif_set_regs(&regs);
        d.verif_set_code_sizes(&lit, &dist);
        let r = v::init_tree_hook(&mut d);
        if r != 1 {
            eprintln!("init_tree refused the code lengths of {}: {}", name, r);
            return 1;
        }
        emit(name, &d, &lit, &dist);
    }
    0
}

/// Replay for the compressor-reset harness: dirty a compressor through the public API with many
/// histories (streams abandoned at every cut point, pending output, error states, finished streams),
/// call reset(), and compare every hook-visible field with a new compressor of the same flags.
fn cmd_reset_check() -> i32 {
    use miniz_oxide::deflate::core::create_comp_flags_from_zip_params;
    let text: Vec<u8> = b"the quick brown fox jumps over the lazy dog; pack my box with five dozen liquor jugs. "
        .iter().cycle().take(4000).enumerate().map(|(i, &b)| if i % 97 == 13 { b ^ 0x20 } else { b }).collect();
    let mut bad = 0;
    for level in [1i32, 4, 6, 9] {
        for strat in [0i32, 1, 3] {
            let flags = create_comp_flags_from_zip_params(level, 1, strat);
            let fresh = CompressorOxide::new(flags);
            let want = fresh.verif_scalars();
            for cut in (1..1400).step_by(3) {
                for small_out in [false, true] {
                    let mut c = CompressorOxide::new(flags);
                    let mut out = vec![0u8; if small_out { 3 } else { 8192 }];
                    let fl = if small_out { TDEFLFlush::Finish } else { TDEFLFlush::None };
                    let _ = compress(&mut c, &text[..cut], &mut out, fl);
                    if cut % 5 == 0 {
                        // drive it into the error state as well
                        let _ = compress(&mut c, &text[..1], &mut out, TDEFLFlush::None);
                    }
                    c.reset();
                    let got = c.verif_scalars();
                    let arrays_clean = (0..32768).all(|i| c.verif_hash(i) == 0 && c.verif_next(i) == 0)
                        && (0..33026).all(|i| c.verif_dict(i) == 0)
                        && (0..288).all(|i| (0..3).all(|t| c.verif_huff_count(t, i) == 0));
                    if got != want || !arrays_clean {
                        if bad < 3 {
                            println!("REPRODUCED C18 after compress(level {}, strategy {}, {} bytes, small_out={}) + reset(): state differs from a new compressor: got {:?} want {:?} arrays_clean={}",
                                     level, strat, cut, small_out, got, want, arrays_clean);
                        }
                        bad += 1;
                    }
                }
            }
        }
    }
    if bad == 0 {
        println!("NOT-REPRODUCED");
        0
    } else {
        println!("REPRODUCED C18 in {} histories", bad);
        1
    }
}

/// Snapshot for the Huffman-block harness family: feed `bytes` (a stream prefix ending inside or
/// right after a block header) to the REAL decoder one byte at a time, "more input" announced,
/// until it waits in state DecodeLitlen with the decode tables built by the real init_tree;
/// print registers, both tables, bytes consumed and bytes already written as JSON.
fn cmd_snap(args: &[String]) -> i32 {
    use miniz_oxide::inflate::core::{decompress_with_limit, DecompressorOxide};
    let flags: u32 = args[0].parse().unwrap();
    let out_len: usize = args[1].parse().unwrap();
    let pos0: usize = args[2].parse().unwrap();
    let hex = args[3].as_bytes();
    let bytes: Vec<u8> = (0..hex.len() / 2).map(|i| u8::from_str_radix(std::str::from_utf8(&hex[2 * i..2 * i + 2]).unwrap(), 16).unwrap()).collect();
    let mut d = DecompressorOxide::new();
    let mut out = vec![0u8; out_len];
    let mut pos = pos0;
    let mut consumed = 0usize;
    let mut reached = false;
    while consumed < bytes.len() {
        let (st, c, w) = decompress_with_limit(&mut d, &bytes[consumed..consumed + 1], &mut out, pos, usize::MAX, flags | 2);
        consumed += c;
        pos += w;
        if st as i32 != 1 || c != 1 {
            println!("{{\"error\": \"status {:?} after {} bytes\"}}", st, consumed);
            return 1;
        }
        if d.verif_state_id() == 12 {
            reached = true;
            break;
        }
    }
    if !reached {
        println!("{{\"error\": \"DecodeLitlen not reached\"}}");
        return 1;
    }
    let r = d.verif_regs();
    let (l0, t0) = d.verif_table_snapshot(0);
    let (l1, t1) = d.verif_table_snapshot(1);
    println!("{{\"consumed\": {}, \"written\": {:?}, \"state\": {}, \"num_bits\": {}, \"bit_buf\": {}, \"z_header0\": {}, \"z_header1\": {}, \"z_adler32\": {}, \"finish\": {}, \"block_type\": {}, \"check_adler32\": {}, \"dist\": {}, \"counter\": {}, \"num_extra\": {}, \"table_sizes\": {:?}, \"raw_header\": {:?}, \"l_lookup\": {:?}, \"l_tree\": {:?}, \"d_lookup\": {:?}, \"d_tree\": {:?}}}",
             consumed, &out[pos0..pos], r.state, r.num_bits, r.bit_buf, r.z_header0, r.z_header1, r.z_adler32, r.finish, r.block_type, r.check_adler32,
             r.dist, r.counter, r.num_extra, r.table_sizes, r.raw_header, &l0[..], &t0[..], &l1[..], &t1[..]);
    0
}

fn main() {
    let args: Vec<String> = std::env::args().skip(1).collect();
    if args.is_empty() {
        eprintln!("usage: mzreplay <cmd> ...");
        exit(2);
    }
    let rc = match args[0].as_str() {
        "route" => cmd_route(&args[1..]),
        "refcheck" => cmd_refcheck(),
        "reset-check" => cmd_reset_check(),
        "dump-tables" => cmd_dump_tables(),
        "snap" => cmd_snap(&args[1..]),
        "capi-init" => cmd_capi_init(&args[1..]),
        "capi-init-child" => cmd_capi_init_child(&args[1..]),
        _ => {
            eprintln!("unknown command");
            2
        }
    };
    exit(rc);
}
