//! Native replay / reference-validation binary. Runs the real miniz_oxide build (dev or
//! release profile) on concrete values taken from a solver counterexample.
mod inflate_ref;

use inflate_ref::{inflate, Token};
use miniz_oxide::deflate::core::{
    compress, CompressionStrategy, CompressorOxide, TDEFLFlush, TDEFLStatus,
};
use miniz_oxide::DataFormat;
use std::process::exit;

fn strategy(n: i32) -> CompressionStrategy {
    match n {
        1 => CompressionStrategy::Filtered,
        2 => CompressionStrategy::HuffmanOnly,
        3 => CompressionStrategy::RLE,
        4 => CompressionStrategy::Fixed,
        _ => CompressionStrategy::Default,
    }
}

/// Input with redundancy only at distances > 1 and both below and beyond small windows:
/// a 16-byte pattern, a low-entropy gap without runs, the pattern again, for several gaps.
pub fn probe_input() -> Vec<u8> {
    let pat: Vec<u8> = (0..16u8).map(|i| 0x41 + (i * 7) % 23).collect();
    let mut v = Vec::new();
    let mut x: u32 = 12345;
    for gap in [12usize, 300, 1100, 2500, 5000, 9000, 20000] {
        v.extend_from_slice(&pat);
        let mut last = 0u8;
        for _ in 0..gap {
            x = x.wrapping_mul(1664525).wrapping_add(1013904223);
            let mut c = 0x61 + ((x >> 24) & 15) as u8;
            if c == last {
                c = 0x61 + ((c - 0x61 + 1) & 15);
            }
            last = c;
            v.push(c);
        }
        v.extend_from_slice(&pat);
    }
    v
}

fn compress_all(c: &mut CompressorOxide, input: &[u8]) -> Vec<u8> {
    let mut out = vec![0u8; input.len() * 2 + 1024];
    let (st, consumed, written) = compress(c, input, &mut out, TDEFLFlush::Finish);
    assert_eq!(st, TDEFLStatus::Done);
    assert_eq!(consumed, input.len());
    out.truncate(written);
    out
}

/// Replay of the routing harness' counterexample: run the real compressor in the reported
/// configuration and check the token-level clauses of C10/C11 with the independent inflater.
fn cmd_route(args: &[String]) -> i32 {
    let fmt = args[0].as_str();
    let level: u8 = args[1].parse().unwrap();
    let strat: i32 = args[2].parse().unwrap();
    let wbits: u8 = args[3].parse().unwrap();
    let format = if fmt == "zlib" { DataFormat::Zlib } else { DataFormat::Raw };
    let mut c = CompressorOxide::with_params(format, level, strategy(strat), wbits);
    let input = probe_input();
    let out = compress_all(&mut c, &input);
    let d = match inflate(&out, fmt == "zlib") {
        Ok(d) => d,
        Err(e) => {
            println!("REPRODUCED C10 reference inflater rejects output: {:?}", e);
            return 1;
        }
    };
    let mut bad = 0;
    if d.out != input {
        println!("REPRODUCED C10 output does not decode to the input");
        bad += 1;
    }
    let eff_level = level.min(10);
    let w = wbits.min(15);
    let rle_requested = strat == 3 && eff_level != 0;
    let rle_forced = w < 12 && strat != 2 && eff_level != 0;
    println!(
        "config fmt={} level={} strategy={} window_bits={} -> max_dist={} min_len={} cmf={:?} blocks(stored,fixed,dyn)={:?} out_len={}",
        fmt, level, strat, wbits, d.max_dist, d.min_len, d.cmf, d.block_types, out.len()
    );
    if rle_requested && d.max_dist > 1 {
        println!("REPRODUCED C10 RLE strategy requested but a match with distance {} was emitted", d.max_dist);
        bad += 1;
    }
    if let Some(cmf) = d.cmf {
        let declared = 1u32 << ((cmf >> 4) as u32 + 8);
        if d.max_dist > declared {
            println!(
                "REPRODUCED C11 header declares a {}-byte window (CMF {:#04x}) but a match reaches back {} bytes (forced RLE: {})",
                declared, cmf, d.max_dist, rle_forced
            );
            bad += 1;
        }
    }
    if eff_level == 0 && (d.block_types[1] != 0 || d.block_types[2] != 0) {
        println!("REPRODUCED C10 level 0 emitted a Huffman block");
        bad += 1;
    }
    if strat == 4 && eff_level != 0 && d.block_types[2] != 0 {
        println!("REPRODUCED C10 fixed strategy emitted a dynamic block");
        bad += 1;
    }
    if strat == 2 && d.max_dist != 0 {
        println!("REPRODUCED C10 huffman-only emitted a match");
        bad += 1;
    }
    if strat == 1 && eff_level != 0 && !rle_forced && d.min_len < 5 {
        // the property: no match shorter than 5
        println!("REPRODUCED C10 filtered strategy emitted a match of length {}", d.min_len);
        bad += 1;
    }
    if d.final_blocks != 1 {
        println!("REPRODUCED C10 {} final blocks", d.final_blocks);
        bad += 1;
    }
    if bad == 0 {
        println!("NOT-REPRODUCED");
        0
    } else {
        1
    }
}

/// Replay for the C-API init misuse harness: call the real extern "C" init functions with the
/// solver's parameter values in a child process; a crash (panic=abort) instead of an error code
/// is the violation.
fn cmd_capi_init(args: &[String]) -> i32 {
    let exe = std::env::current_exe().unwrap();
    let out = std::process::Command::new(exe).arg("capi-init-child").args(args).output().unwrap();
    let so = String::from_utf8_lossy(&out.stdout).to_string();
    let se = String::from_utf8_lossy(&out.stderr).to_string();
    print!("{}", so);
    if !out.status.success() {
        let last = se.lines().filter(|l| l.contains("panicked") || l.contains("overflow")).collect::<Vec<_>>().join(" | ");
        println!("REPRODUCED C17 init call with (level, method, window_bits, mem_level, strategy) = {:?} crashed ({:?}) instead of returning an error code: {}", args, out.status, last);
        return 1;
    }
    if so.contains("MISMATCH") {
        println!("REPRODUCED C17 init call returned an unexpected code");
        return 1;
    }
    println!("NOT-REPRODUCED");
    0
}

fn cmd_capi_init_child(args: &[String]) -> i32 {
    use miniz_oxide_c_api::*;
    let v: Vec<i32> = args.iter().map(|a| a.parse::<i64>().unwrap() as i32).collect();
    let (level, method, wbits, mem, strat) = (v[0], v[1], v[2], v[3], v[4]);
    let ok = method == 8 && (1..=9).contains(&mem) && (wbits == 15 || wbits == -15);
    unsafe {
        let mut s = mz_stream::default();
        let rc = mz_deflateInit2(&mut s, level, method, wbits, mem, strat);
        println!("mz_deflateInit2 -> {}", rc);
        if rc != if ok { 0 } else { -10000 } {
            println!("MISMATCH deflateInit2");
        }
        let mut si = mz_stream::default();
        let rci = mz_inflateInit2(&mut si, wbits);
        println!("mz_inflateInit2 -> {}", rci);
        if rci != if wbits == 15 || wbits == -15 { 0 } else { -10000 } {
            println!("MISMATCH inflateInit2");
        }
    }
    0
}

fn main() {
    let args: Vec<String> = std::env::args().skip(1).collect();
    if args.is_empty() {
        eprintln!("usage: mzreplay <cmd> ...");
        exit(2);
    }
    let rc = match args[0].as_str() {
        "route" => cmd_route(&args[1..]),
        "capi-init" => cmd_capi_init(&args[1..]),
        "capi-init-child" => cmd_capi_init_child(&args[1..]),
        _ => {
            eprintln!("unknown command");
            2
        }
    };
    exit(rc);
}
