//! Independent RFC 1951/1950 inflater with a token trace. Shares no code or tables with
//! miniz_oxide: tables are computed from the RFC's closed forms, codes are decoded bit by bit
//! against canonical code ranges.

#[derive(Debug, Clone, PartialEq, Eq)]
pub enum Token {
    BlockStart { bfinal: bool, btype: u8 },
    StoredLen(u16),
    Lit(u8),
    Match { len: u16, dist: u16 },
    CodeLens { hlit: u16, hdist: u16, hclen: u16, max_litlen: u8, max_dist: u8 },
    EndOfBlock,
}

#[derive(Debug)]
pub struct Decoded {
    pub out: Vec<u8>,
    pub tokens: Vec<Token>,
    /// bytes of input consumed (including zlib header/trailer when present)
    pub consumed: usize,
    pub cmf: Option<u8>,
    pub max_dist: u32,
    pub min_len: u32,
    pub final_blocks: u32,
    pub block_types: [u32; 3],
}

#[derive(Debug, PartialEq, Eq)]
pub enum Error {
    Truncated,
    Invalid(&'static str),
}

struct Bits<'a> {
    d: &'a [u8],
    pos: usize, // bit position
}
impl<'a> Bits<'a> {
    fn bit(&mut self) -> Result<u32, Error> {
        let byte = self.pos >> 3;
        if byte >= self.d.len() {
            return Err(Error::Truncated);
        }
        let b = (self.d[byte] >> (self.pos & 7)) & 1;
        self.pos += 1;
        Ok(b as u32)
    }
    fn bits(&mut self, n: u32) -> Result<u32, Error> {
        let mut v = 0;
        for i in 0..n {
            v |= self.bit()? << i;
        }
        Ok(v)
    }
    fn align(&mut self) {
        self.pos = (self.pos + 7) & !7;
    }
}

/// Canonical Huffman code described by lengths; decode bit by bit.
struct Code {
    count: [u16; 16],
    symbols: Vec<u16>,
}
impl Code {
    /// `allow_incomplete`: RFC/zlib permit an incomplete code only when it has at most one
    /// code, of length 1 (or no codes at all).
    fn new(lens: &[u8], allow_incomplete: bool) -> Result<Code, Error> {
        let mut count = [0u16; 16];
        for &l in lens {
            if l > 15 {
                return Err(Error::Invalid("code length > 15"));
            }
            count[l as usize] += 1;
        }
        count[0] = 0;
        let mut left: i32 = 1;
        let mut maxlen = 0;
        for l in 1..16 {
            left <<= 1;
            left -= count[l] as i32;
            if left < 0 {
                return Err(Error::Invalid("over-subscribed code"));
            }
            if count[l] != 0 {
                maxlen = l;
            }
        }
        if left > 0 && !(allow_incomplete && maxlen <= 1) {
            return Err(Error::Invalid("incomplete code"));
        }
        let mut offs = [0u16; 16];
        for l in 1..15 {
            offs[l + 1] = offs[l] + count[l];
        }
        let n: usize = count.iter().map(|&c| c as usize).sum();
        let mut symbols = vec![0u16; n];
        for (s, &l) in lens.iter().enumerate() {
            if l != 0 {
                symbols[offs[l as usize] as usize] = s as u16;
                offs[l as usize] += 1;
            }
        }
        Ok(Code { count, symbols })
    }
    fn decode(&self, b: &mut Bits) -> Result<u16, Error> {
        let mut code: i32 = 0;
        let mut first: i32 = 0;
        let mut index: i32 = 0;
        for l in 1..16 {
            code |= b.bit()? as i32;
            let c = self.count[l] as i32;
            if code - c < first {
                return Ok(self.symbols[(index + (code - first)) as usize]);
            }
            index += c;
            first += c;
            first <<= 1;
            code <<= 1;
        }
        Err(Error::Invalid("undefined code"))
    }
}

fn len_base_extra(sym: u16) -> Option<(u32, u32)> {
    // symbols 257..=285
    if !(257..=285).contains(&sym) {
        return None;
    }
    let i = (sym - 257) as u32;
    Some(if i < 8 {
        (3 + i, 0)
    } else if i == 28 {
        (258, 0)
    } else {
        let e = (i - 4) / 4;
        (3 + ((4 + (i % 4)) << e), e)
    })
}

fn dist_base_extra(sym: u16) -> Option<(u32, u32)> {
    if sym > 29 {
        return None;
    }
    let i = sym as u32;
    Some(if i < 4 {
        (1 + i, 0)
    } else {
        let e = i / 2 - 1;
        (1 + ((2 + (i % 2)) << e), e)
    })
}

pub fn adler32(data: &[u8]) -> u32 {
    let (mut a, mut b) = (1u32, 0u32);
    for &x in data {
        a = (a + x as u32) % 65521;
        b = (b + a) % 65521;
    }
    (b << 16) | a
}

/// Decode one complete stream starting at `data[0]`. `zlib`: expect RFC 1950 framing.
/// `prefix`: bytes assumed to precede the output (for distance checks) - normally empty.
pub fn inflate(data: &[u8], zlib: bool) -> Result<Decoded, Error> {
    let mut b = Bits { d: data, pos: 0 };
    let mut cmf = None;
    if zlib {
        if data.len() < 2 {
            return Err(Error::Truncated);
        }
        let (c, f) = (data[0] as u32, data[1] as u32);
        if (c * 256 + f) % 31 != 0 || c & 15 != 8 || (c >> 4) > 7 || f & 0x20 != 0 {
            return Err(Error::Invalid("zlib header"));
        }
        cmf = Some(data[0]);
        b.pos = 16;
    }
    let mut out: Vec<u8> = Vec::new();
    let mut tokens = Vec::new();
    let mut max_dist = 0;
    let mut min_len = u32::MAX;
    let mut final_blocks = 0;
    let mut block_types = [0u32; 3];
    loop {
        let bfinal = b.bit()? == 1;
        let btype = b.bits(2)? as u8;
        tokens.push(Token::BlockStart { bfinal, btype });
        if bfinal {
            final_blocks += 1;
        }
        match btype {
            0 => {
                block_types[0] += 1;
                b.align();
                let len = b.bits(16)?;
                let nlen = b.bits(16)?;
                if len != (!nlen & 0xFFFF) {
                    return Err(Error::Invalid("stored LEN/NLEN"));
                }
                tokens.push(Token::StoredLen(len as u16));
                let start = b.pos >> 3;
                if start + len as usize > data.len() {
                    return Err(Error::Truncated);
                }
                out.extend_from_slice(&data[start..start + len as usize]);
                b.pos += 8 * len as usize;
            }
            1 | 2 => {
                block_types[btype as usize] += 1;
                let (lit, dist) = if btype == 1 {
                    let mut l = [0u8; 288];
                    for (i, x) in l.iter_mut().enumerate() {
                        *x = if i < 144 { 8 } else if i < 256 { 9 } else if i < 280 { 7 } else { 8 };
                    }
                    (Code::new(&l, false)?, Code::new(&[5u8; 32], false)?)
                } else {
                    let hlit = b.bits(5)? as usize + 257;
                    let hdist = b.bits(5)? as usize + 1;
                    let hclen = b.bits(4)? as usize + 4;
                    if hlit > 286 || hdist > 30 {
                        return Err(Error::Invalid("too many symbols"));
                    }
                    const ORDER: [usize; 19] =
                        [16, 17, 18, 0, 8, 7, 9, 6, 10, 5, 11, 4, 12, 3, 13, 2, 14, 1, 15];
                    let mut cl = [0u8; 19];
                    for &o in ORDER.iter().take(hclen) {
                        cl[o] = b.bits(3)? as u8;
                    }
                    let clc = Code::new(&cl, false)?;
                    let mut lens = vec![0u8; hlit + hdist];
                    let mut i = 0;
                    while i < hlit + hdist {
                        let s = clc.decode(&mut b)?;
                        if s < 16 {
                            lens[i] = s as u8;
                            i += 1;
                        } else {
                            let (val, rep) = match s {
                                16 => {
                                    if i == 0 {
                                        return Err(Error::Invalid("repeat without previous"));
                                    }
                                    (lens[i - 1], 3 + b.bits(2)?)
                                }
                                17 => (0, 3 + b.bits(3)?),
                                _ => (0, 11 + b.bits(7)?),
                            };
                            if i + rep as usize > hlit + hdist {
                                return Err(Error::Invalid("repeat overruns"));
                            }
                            for _ in 0..rep {
                                lens[i] = val;
                                i += 1;
                            }
                        }
                    }
                    if lens[256] == 0 {
                        return Err(Error::Invalid("no end-of-block code"));
                    }
                    tokens.push(Token::CodeLens {
                        hlit: hlit as u16,
                        hdist: hdist as u16,
                        hclen: hclen as u16,
                        max_litlen: *lens[..hlit].iter().max().unwrap(),
                        max_dist: *lens[hlit..].iter().max().unwrap(),
                    });
                    (Code::new(&lens[..hlit], true)?, Code::new(&lens[hlit..], true)?)
                };
                loop {
                    let s = lit.decode(&mut b)?;
                    if s < 256 {
                        out.push(s as u8);
                        tokens.push(Token::Lit(s as u8));
                    } else if s == 256 {
                        tokens.push(Token::EndOfBlock);
                        break;
                    } else {
                        let (lb, le) = len_base_extra(s).ok_or(Error::Invalid("length symbol"))?;
                        let len = lb + b.bits(le)?;
                        let ds = dist.decode(&mut b)?;
                        let (db, de) = dist_base_extra(ds).ok_or(Error::Invalid("distance symbol"))?;
                        let d = db + b.bits(de)?;
                        if d as usize > out.len() {
                            return Err(Error::Invalid("distance before start"));
                        }
                        max_dist = max_dist.max(d);
                        min_len = min_len.min(len);
                        tokens.push(Token::Match { len: len as u16, dist: d as u16 });
                        for _ in 0..len {
                            let c = out[out.len() - d as usize];
                            out.push(c);
                        }
                    }
                }
            }
            _ => return Err(Error::Invalid("block type 3")),
        }
        if bfinal {
            break;
        }
    }
    b.align();
    let mut consumed = b.pos >> 3;
    if zlib {
        if consumed + 4 > data.len() {
            return Err(Error::Truncated);
        }
        let t = u32::from_be_bytes([data[consumed], data[consumed + 1], data[consumed + 2], data[consumed + 3]]);
        if t != adler32(&out) {
            return Err(Error::Invalid("adler32"));
        }
        consumed += 4;
    }
    Ok(Decoded { out, tokens, consumed, cmf, max_dist, min_len, final_blocks, block_types })
}
