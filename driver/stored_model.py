"""Reference model of what RFC 1951/1950 + the documented tinfl call protocol prescribe for the
*stored-block language* (streams whose blocks are all BTYPE=00), at the level of one
decompress_with_limit() call: status, bytes consumed, bytes written.

Control bytes of the stream must be concrete ints; payload / trailer / trailing bytes may be
symbolic (any hashable token).  The model is independent of the crate's code: it is the
specification the generated Kani harnesses assert against.
"""

class Cut(Exception):
    """The stream leaves the stored language (BTYPE 1/2): outside the harness family."""


def adler32(data):
    a, b = 1, 0
    for x in data:
        a = (a + x) % 65521
        b = (b + a) % 65521
    return (b << 16) | a


class Model:
    def __init__(self, zlib, ignore_adler=False, ring=None, stop=False):
        self.stop = stop          # TINFL_FLAG_STOP_ON_BLOCK_BOUNDARY
        self.zlib = zlib
        self.ignore = ignore_adler
        self.ring = ring          # ring size (power of two) or None for a flat buffer
        self.phase = "ZH" if zlib else "BH"
        self.k = 0
        self.hdr = []
        self.final = 0
        self.rem = 0
        self.lenb = []
        self.trailer = []
        self.out = []             # all symbols produced so far
        self.done_status = None

    def call(self, chunk, has_more, room):
        """room = bytes available in the granted output window for this call.
        Returns (status, consumed, written_symbols)."""
        i = 0
        w = []

        def starve():
            st = "NeedsMoreInput" if has_more else "FailedCannotMakeProgress"
            if st == "NeedsMoreInput" and room - len(w) == 0 and self.phase != "TR":
                st = "HasMoreOutput"
            return (st, len(chunk), w)

        if self.phase == "FAILED":
            return ("Failed", 0, w)
        if self.phase == "DONE":
            return (self.done_status, 0, w)
        while True:
            if self.phase == "ZH":
                if i == len(chunk):
                    return starve()
                self.hdr.append(chunk[i]); i += 1
                if len(self.hdr) == 2:
                    cmf, flg = self.hdr
                    ok = (cmf * 256 + flg) % 31 == 0 and (flg & 0x20) == 0 and (cmf & 15) == 8 and (cmf >> 4) <= 7
                    if ok and self.ring is not None and self.ring < (1 << ((cmf >> 4) + 8)):
                        ok = False   # documented: ring must hold the declared window
                    if not ok:
                        self.phase = "FAILED"
                        return ("Failed", i, w)
                    self.phase = "BH"
            elif self.phase == "BH":
                if i == len(chunk):
                    return starve()
                b = chunk[i]; i += 1
                assert isinstance(b, int), "block header byte must be concrete"
                self.final = b & 1
                t = (b >> 1) & 3
                if t == 3:
                    self.phase = "FAILED"
                    return ("Failed", i, w)
                if t != 0:
                    raise Cut()
                self.phase = "LEN"; self.lenb = []
            elif self.phase == "LEN":
                if len(self.lenb) < 4:
                    if i == len(chunk):
                        return starve()
                    self.lenb.append(chunk[i]); i += 1
                    continue
                ln = self.lenb[0] | (self.lenb[1] << 8)
                nl = self.lenb[2] | (self.lenb[3] << 8)
                if ln != (~nl & 0xFFFF):
                    self.phase = "FAILED"
                    return ("Failed", i, w)
                self.rem = ln
                self.phase = "COPY"
            elif self.phase == "COPY":
                if self.rem == 0:
                    if self.final:
                        if self.zlib:
                            self.phase = "TR"; self.trailer = []
                        else:
                            self.phase = "DONE"; self.done_status = "Done"
                            return ("Done", i, w)
                    else:
                        self.phase = "BH"
                        if self.stop:
                            return ("BlockBoundary", i, w)
                elif room - len(w) == 0:
                    return ("HasMoreOutput", i, w)
                elif i == len(chunk):
                    return starve()
                else:
                    n = min(room - len(w), len(chunk) - i, self.rem)
                    w.extend(chunk[i:i + n]); self.out.extend(chunk[i:i + n])
                    i += n; self.rem -= n
            elif self.phase == "TR":
                if len(self.trailer) < 4:
                    if i == len(chunk):
                        return starve()
                    self.trailer.append(chunk[i]); i += 1
                    continue
                self.phase = "DONE"
                # verdict decided by the caller when payload or trailer is symbolic
                self.done_status = "Done" if self.ignore else "DoneOrMismatch"
                return (self.done_status, i, w)
            else:
                raise AssertionError(self.phase)


def stored_stream(blocks, zlib=False, cmf=0x78, flg=0x01, trailer=None):
    """blocks: list of (final, [payload symbols]).  Returns the byte/symbol list."""
    s = []
    if zlib:
        s += [cmf, flg]
    for final, payload in blocks:
        n = len(payload)
        s += [final & 1, n & 0xFF, n >> 8, (~n) & 0xFF, ((~n) >> 8) & 0xFF]
        s += list(payload)
    if zlib:
        s += list(trailer)
    return s
