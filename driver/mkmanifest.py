#!/usr/bin/env python3
"""Regenerates /verif/MANIFEST.json from the harness registry (run after editing the registry)."""
import json, os, subprocess, sys
VERIF = os.path.dirname(os.path.dirname(os.path.abspath(__file__)))
sys.path.insert(0, os.path.join(VERIF, "driver"))
import registry

TEXT = {
    # id: (level text, level note, technique, design ref)
}
sys.path.insert(0, os.path.join(VERIF, "driver"))
try:
    import claims
    TEXT = claims.TEXT
    NOT_APPLICABLE = claims.NOT_APPLICABLE
except ImportError:
    NOT_APPLICABLE = {}

props = [json.loads(l) for l in open(os.path.join(VERIF, "properties.jsonl"))]
hs = registry.all_harnesses()
checks, na = [], []
for p in props:
    pid = p["id"]
    mine = [h for h in hs if pid in h["props"]]
    quick = [h for h in mine if h.get("tier", "quick") == "quick" and not h.get("expect_fail") and ("quick_for" not in h or pid in h["quick_for"])]
    if pid in NOT_APPLICABLE or len(quick) < 2 or pid not in TEXT:
        na.append({"property_id": pid, "reason": NOT_APPLICABLE.get(
            pid, "no solver-decidable bounded harness over the real code is registered for this property yet")})
        continue
    t = TEXT[pid]
    checks.append({
        "property_id": pid,
        "quick_cmd": "./check %s quick" % pid,
        "thorough_cmd": "./check %s thorough" % pid,
        "evidence_file": "evidence/%s.json" % pid,
        "replay_cmd_template": "./check --replay {path}",
        "engine": "kani-cbmc",
        "level_claimed": {"category": "model_checking", "text": t["text"], "design_ref": t.get("design_ref", "DESIGN.md §5 " + pid)},
        "level_note": t["note"],
        "technique": t.get("technique", "bounded symbolic model checking of the real Rust code (Kani 0.68 / CBMC 6.11, SAT)"),
    })

src = subprocess.run(["git", "-C", "/repo", "log", "--format=%h %s"], stdout=subprocess.PIPE, text=True).stdout.splitlines()
hook_commits = [l.split()[0] for l in src if l.split(" ", 1)[1].startswith("verif hooks")]
man = {
    "version": 1,
    "setup_cmd": "./setup.sh",
    "hooks": {
        "guard": "cargo feature `verif-hooks` of the miniz_oxide crate (off by default)",
        "enable": "the harness crates /verif/kani and /verif/replay depend on /repo/miniz_oxide with features = [\"verif-hooks\", \"block-boundary\"]; cargo kani compiles /repo's working tree with it",
        "baseline_off_cmd": "cd /repo && cargo nextest run --workspace --no-fail-fast --tool-config-file pb:/w/lib/nextest.toml --profile pb --test-threads 8 --offline || cargo test --workspace --no-fail-fast --offline",
        "source_commits": hook_commits,
        "add_only": True,
    },
    "engines": [
        {"name": "kani-cbmc", "path": "/verif/kani", "serves_properties": [c["property_id"] for c in checks],
         "kind_free_text": "Kani 0.68 proof harnesses (kani::any inputs, unwinding assertions on) over the real miniz_oxide / miniz_oxide_c_api code, decided by CBMC 6.11 + cadical; driver /verif/check"},
        {"name": "native-replay", "path": "/verif/replay", "serves_properties": [c["property_id"] for c in checks],
         "kind_free_text": "replays solver counterexamples against the real build (dev and release) with an independent RFC 1951 inflater; also validates the harness-side reference definitions (refcheck)"},
    ],
    "checks": checks,
    "not_applicable": na,
    "notes": "Every verdict is bounded; bounds, stubs and assumptions are listed per harness in evidence/<id>.json and DESIGN.md. Exit 2 = inconclusive (resource limit / unreproduced counterexample), never reported as success.",
}
with open(os.path.join(VERIF, "MANIFEST.json"), "w") as f:
    json.dump(man, f, indent=1)
print("claimed:", [c["property_id"] for c in checks])
print("not applicable:", [n["property_id"] for n in na])
