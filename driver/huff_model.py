"""Stream builder and reference inflater (RFC 1951) for the Huffman-block harness family.

Independent of the crate's code.  Streams are lists of items: ints are concrete bytes, strings are
symbolic bytes (only ever whole, byte-aligned bytes: stored payload and trailing bytes).  The
reference inflater decodes such a list into plaintext *symbols*: ints (Huffman literals), strings
(stored payload bytes) and ("g", i) = "whatever byte the caller's output buffer held at index i
before decoding started" (a match reaching back into caller-provided history).

Validated on every generator run against CPython's zlib (a third implementation): see selfcheck().
"""
import zlib

LEN_BASE = [3, 4, 5, 6, 7, 8, 9, 10, 11, 13, 15, 17, 19, 23, 27, 31, 35, 43, 51, 59, 67, 83, 99, 115, 131, 163, 195, 227, 258]
LEN_EXTRA = [0, 0, 0, 0, 0, 0, 0, 0, 1, 1, 1, 1, 2, 2, 2, 2, 3, 3, 3, 3, 4, 4, 4, 4, 5, 5, 5, 5, 0]
DIST_BASE = [1, 2, 3, 4, 5, 7, 9, 13, 17, 25, 33, 49, 65, 97, 129, 193, 257, 385, 513, 769, 1025, 1537, 2049, 3073, 4097, 6145,
             8193, 12289, 16385, 24577]
DIST_EXTRA = [0, 0, 0, 0, 1, 1, 2, 2, 3, 3, 4, 4, 5, 5, 6, 6, 7, 7, 8, 8, 9, 9, 10, 10, 11, 11, 12, 12, 13, 13]
CL_ORDER = [16, 17, 18, 0, 8, 7, 9, 6, 10, 5, 11, 4, 12, 3, 13, 2, 14, 1, 15]

FIXED_LIT = [8] * 144 + [9] * 112 + [7] * 24 + [8] * 8
FIXED_DIST = [5] * 32


def canonical(lengths):
    """RFC 1951 3.2.2: symbol -> (code, nbits)."""
    bl = [0] * 17
    for l in lengths:
        bl[l] += 1
    bl[0] = 0
    code, nxt = 0, [0] * 17
    for b in range(1, 17):
        code = (code + bl[b - 1]) << 1
        nxt[b] = code
    out = {}
    for s, l in enumerate(lengths):
        if l:
            out[s] = (nxt[l], l)
            nxt[l] += 1
    return out


class BitWriter:
    def __init__(self):
        self.items = []     # finished bytes / symbolic tokens
        self.acc = []       # pending bits (LSB first)

    def put(self, value, n):
        for i in range(n):
            self.acc.append((value >> i) & 1)
        self._flush()

    def put_code(self, code, n):
        for i in range(n - 1, -1, -1):
            self.acc.append((code >> i) & 1)
        self._flush()

    def _flush(self):
        while len(self.acc) >= 8:
            b = 0
            for i in range(8):
                b |= self.acc[i] << i
            self.items.append(b)
            self.acc = self.acc[8:]

    def align(self, fill=0):
        while len(self.acc) % 8:
            self.acc.append(fill & 1)
        self._flush()

    def token(self, t):
        assert not self.acc
        self.items.append(t)

    def bitpos(self):
        return 8 * len(self.items) + len(self.acc)


def len_sym(length):
    for s in range(28, -1, -1):
        if LEN_BASE[s] <= length:
            if s == 28 and length != 258:
                continue
            return 257 + s, length - LEN_BASE[s], LEN_EXTRA[s]
    raise ValueError(length)


def dist_sym(dist):
    for s in range(29, -1, -1):
        if DIST_BASE[s] <= dist:
            return s, dist - DIST_BASE[s], DIST_EXTRA[s]
    raise ValueError(dist)


def put_tokens(w, toks, lit_lens, dist_lens):
    """toks: ints = literals, ('m', length, dist) = match. Appends the end-of-block code."""
    lc, dc = canonical(lit_lens), canonical(dist_lens)
    for t in toks:
        if isinstance(t, int):
            w.put_code(*lc[t])
        else:
            _, ln, di = t
            s, ev, eb = len_sym(ln)
            w.put_code(*lc[s])
            w.put(ev, eb)
            s, ev, eb = dist_sym(di)
            w.put_code(*dc[s])
            w.put(ev, eb)
    w.put_code(*lc[256])


def fixed_block(w, final, toks):
    w.put(final, 1)
    w.put(1, 2)
    hdr_end = w.bitpos()
    put_tokens(w, toks, FIXED_LIT, FIXED_DIST)
    return hdr_end


def dynamic_block(w, final, toks, lit_lens, dist_lens):
    """Header with every code length sent literally (code-length code: symbols 0..15, 4 bits each)."""
    w.put(final, 1)
    w.put(2, 2)
    hlit, hdist = len(lit_lens), len(dist_lens)
    assert 257 <= hlit <= 286 and 1 <= hdist <= 30
    w.put(hlit - 257, 5)
    w.put(hdist - 1, 5)
    w.put(19 - 4, 4)
    cl = [4] * 16 + [0, 0, 0]
    for s in CL_ORDER:
        w.put(cl[s], 3)
    cc = canonical(cl)
    for l in list(lit_lens) + list(dist_lens):
        w.put_code(*cc[l])
    hdr_end = w.bitpos()
    put_tokens(w, toks, lit_lens, dist_lens)
    return hdr_end


def stored_block(w, final, payload, fill=0):
    w.put(final, 1)
    w.put(0, 2)
    w.align(fill)
    n = len(payload)
    w.put(n, 16)
    w.put(n ^ 0xFFFF, 16)
    for p in payload:
        if isinstance(p, int):
            w.put(p, 8)
        else:
            w.token(p)


class BitReader:
    def __init__(self, items):
        self.items, self.pos = items, 0     # pos in bits

    def bit(self):
        b = self.items[self.pos >> 3]
        if not isinstance(b, int):
            raise ValueError("control bit taken from a symbolic byte")
        v = (b >> (self.pos & 7)) & 1
        self.pos += 1
        return v

    def bits(self, n):
        v = 0
        for i in range(n):
            v |= self.bit() << i
        return v

    def align(self):
        self.pos = (self.pos + 7) & ~7

    def byte(self):
        assert self.pos % 8 == 0
        b = self.items[self.pos >> 3]
        self.pos += 8
        return b


def decode_sym(r, lengths):
    """bit-by-bit canonical decode (RFC 1951 3.2.2)."""
    codes = {(c, n): s for s, (c, n) in canonical(lengths).items()}
    code, n = 0, 0
    while True:
        code = (code << 1) | r.bit()
        n += 1
        if (code, n) in codes:
            return codes[(code, n)]
        if n > 15:
            raise ValueError("invalid code")


def inflate_ref(items, hist_len):
    """Raw DEFLATE reference decode.  hist_len = number of caller-provided history bytes
    logically preceding the output (matches may reach into them; further back is invalid).
    Returns (plaintext symbols, stream length in bytes)."""
    r = BitReader(items)
    out = []

    def copy(length, dist):
        for _ in range(length):
            k = len(out) - dist
            if k >= 0:
                out.append(out[k])
            else:
                if -k > hist_len:
                    raise ValueError("distance too far back")
                out.append(("g", k))     # k negative: offset before the output start

    while True:
        final = r.bit()
        bt = r.bits(2)
        if bt == 0:
            r.align()
            n = r.bits(16)
            nn = r.bits(16)
            if n != nn ^ 0xFFFF:
                raise ValueError("stored length check")
            for _ in range(n):
                out.append(r.byte())
        elif bt in (1, 2):
            if bt == 1:
                ll, dl = FIXED_LIT, FIXED_DIST
            else:
                hlit, hdist, hclen = r.bits(5) + 257, r.bits(5) + 1, r.bits(4) + 4
                cl = [0] * 19
                for i in range(hclen):
                    cl[CL_ORDER[i]] = r.bits(3)
                lens = []
                while len(lens) < hlit + hdist:
                    s = decode_sym(r, cl)
                    if s < 16:
                        lens.append(s)
                    elif s == 16:
                        lens += [lens[-1]] * (3 + r.bits(2))
                    elif s == 17:
                        lens += [0] * (3 + r.bits(3))
                    else:
                        lens += [0] * (11 + r.bits(7))
                assert len(lens) == hlit + hdist
                ll, dl = lens[:hlit], lens[hlit:]
            while True:
                s = decode_sym(r, ll)
                if s < 256:
                    out.append(s)
                elif s == 256:
                    break
                else:
                    if s > 285:
                        raise ValueError("bad length symbol")
                    ln = LEN_BASE[s - 257] + r.bits(LEN_EXTRA[s - 257])
                    ds = decode_sym(r, dl)
                    if ds > 29:
                        raise ValueError("bad distance symbol")
                    di = DIST_BASE[ds] + r.bits(DIST_EXTRA[ds])
                    copy(ln, di)
        else:
            raise ValueError("reserved block type")
        if final:
            break
    return out, (r.pos + 7) // 8


def selfcheck(items, hist_len, plain):
    """Cross-check the reference decode with CPython's zlib on a concretisation: symbolic bytes
    become distinct-ish concrete values, the caller history becomes a preset dictionary."""
    def conc(t):
        return (sum(map(ord, t)) * 37 + 11) & 0xFF
    data = bytes(x if isinstance(x, int) else conc(x) for x in items)
    hist = bytes(((i * 29) ^ 0x5A) & 0xFF for i in range(hist_len))
    d = zlib.decompressobj(-15, zdict=hist) if hist_len else zlib.decompressobj(-15)
    got = d.decompress(data)
    want = []
    for s in plain:
        if isinstance(s, int):
            want.append(s)
        elif isinstance(s, str):
            want.append(conc(s))
        else:
            want.append(hist[hist_len + s[1]])
    assert got == bytes(want), "reference inflater disagrees with zlib"
    return len(data) - len(d.unused_data)
