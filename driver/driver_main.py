"""Kani/CBMC driver for the miniz_oxide property checks (see /verif/DESIGN.md §7)."""
import json, os, re, resource, shutil, signal, subprocess, sys, threading, time
from concurrent.futures import ThreadPoolExecutor

VERIF = os.path.dirname(os.path.dirname(os.path.abspath(__file__)))
KANI_DIR = os.path.join(VERIF, "kani")
REPLAY_DIR = os.path.join(VERIF, "replay")
BUILD = os.path.join(VERIF, ".build")
TARGET = os.path.join(BUILD, "kani")
REPLAY_TARGET = os.path.join(BUILD, "replay")
EVIDENCE = os.path.join(VERIF, "evidence")
REPLAYS = os.path.join(VERIF, "replays")
LOGS = os.path.join(BUILD, "logs")
KNOWN = os.path.join(VERIF, "known_findings.json")

ENV = dict(os.environ)
ENV["CARGO_NET_OFFLINE"] = "true"
ENV.setdefault("CARGO_TERM_COLOR", "never")

GB = 1 << 30


def log(*a):
    print(*a, flush=True)


def load_registry():
    sys.path.insert(0, os.path.join(VERIF, "driver"))
    import registry
    return registry.all_harnesses()


# ---------------------------------------------------------------- build

def regenerate():
    gen = os.path.join(VERIF, "driver", "gen.py")
    if os.path.exists(gen):
        subprocess.run([sys.executable, gen], check=True, cwd=VERIF)


FEATURES = []


def feature_args():
    return ["--features", ",".join(FEATURES)] if FEATURES else []


def set_features(features=()):
    FEATURES[:] = sorted(set(f for f in features if f))


def replay_build(profile):
    cmd = ["cargo", "build", "--offline", "--target-dir", REPLAY_TARGET]
    if profile == "release":
        cmd.append("--release")
    p = subprocess.run(cmd, cwd=REPLAY_DIR, env=ENV, stdout=subprocess.PIPE, stderr=subprocess.STDOUT, text=True)
    if p.returncode != 0:
        log(p.stdout[-4000:])
        return None
    return os.path.join(REPLAY_TARGET, profile if profile == "release" else "debug", "mzreplay")


# ---------------------------------------------------------------- running one harness

def _limits(mem_gb):
    def f():
        os.setsid()
        # CBMC recurses deeply over the compressor's large structs (SIGSEGV with the default 8 MB stack)
        try:
            resource.setrlimit(resource.RLIMIT_STACK, (resource.RLIM_INFINITY, resource.RLIM_INFINITY))
        except (ValueError, OSError):
            pass
        if mem_gb:
            resource.setrlimit(resource.RLIMIT_AS, (int(mem_gb * GB), int(mem_gb * GB)))
    return f


def kani_cmd(hs, playback=False, jobs=1, timeout=None):
    """One cargo-kani invocation for a list of harnesses that share mode / cbmc args."""
    h0 = hs[0]
    cmd = ["cargo", "kani", "--target-dir", TARGET, "-Z", "stubbing", "-Z", "unstable-options"]
    for h in hs:
        cmd += ["--harness", h["name"]]
    cmd += ["--exact", "--no-assertion-reach-checks", "--output-format", "terse"] + feature_args()
    if jobs > 1:
        cmd += ["-j", str(jobs)]
    if timeout:
        cmd += ["--harness-timeout", "%ds" % timeout]
    if playback:
        cmd += ["-Z", "concrete-playback", "--concrete-playback=print"]
    cbmc = list(h0.get("cbmc_args", []))
    if h0.get("mode") == "path":
        cbmc += ["--paths", "lifo"]
    if cbmc:
        cmd += ["--cbmc-args"] + cbmc
    return cmd


def run_proc(cmd, cwd, timeout, mem_gb, logpath):
    t0 = time.time()
    with open(logpath, "w") as lf:
        p = subprocess.Popen(cmd, cwd=cwd, env=ENV, stdout=lf, stderr=subprocess.STDOUT,
                             preexec_fn=_limits(mem_gb))
        timed_out = False
        try:
            p.wait(timeout=timeout)
        except subprocess.TimeoutExpired:
            timed_out = True
            try:
                os.killpg(p.pid, signal.SIGKILL)
            except ProcessLookupError:
                pass
            p.wait()
    out = open(logpath, errors="replace").read()
    return p.returncode, timed_out, time.time() - t0, out


RE_SUMMARY = re.compile(r"\*\* (\d+) of (\d+) failed")
RE_COVER = re.compile(r"\*\* (\d+) of (\d+) cover properties satisfied")
RE_TIME = re.compile(r"Verification Time: ([0-9.]+)s")
RE_FAILED = re.compile(r"^Failed Checks: (.*)$", re.M)
RE_STUB = re.compile(r"^\s*- Stub: (.*)$", re.M)


def parse_kani(out):
    r = {"verdict": None, "failed": None, "checks": None, "covers_sat": None, "covers": None,
         "solver_s": None, "failed_checks": [], "unwind_fail": False}
    m = RE_SUMMARY.search(out)
    if m:
        r["failed"], r["checks"] = int(m.group(1)), int(m.group(2))
    m = RE_COVER.search(out)
    if m:
        r["covers_sat"], r["covers"] = int(m.group(1)), int(m.group(2))
    m = RE_TIME.search(out)
    if m:
        r["solver_s"] = float(m.group(1))
    r["failed_checks"] = [x.strip() for x in RE_FAILED.findall(out)]
    if "VERIFICATION:- SUCCESSFUL" in out:
        r["verdict"] = "SUCCESSFUL"
    elif "VERIFICATION:- FAILED" in out:
        r["verdict"] = "FAILED"
    unw = [c for c in r["failed_checks"] if "unwinding assertion" in c]
    r["unwind_fail"] = bool(unw)
    r["real_failed_checks"] = [c for c in r["failed_checks"] if "unwinding assertion" not in c]
    r["stubs"] = RE_STUB.findall(out)
    return r


RE_THREAD_CHECK = re.compile(r"^(?:Thread (\d+): )?Checking harness (\S+?)\.\.\.")
RE_THREAD = re.compile(r"^Thread (\d+): ?(.*)$")


def split_output(out):
    """Attribute the (possibly thread-interleaved) terse output to harnesses."""
    cur, blocks, active = {}, {}, None
    for line in out.splitlines():
        m = RE_THREAD_CHECK.match(line)
        if m:
            tid = m.group(1) or "0"
            cur[tid] = m.group(2)
            blocks.setdefault(m.group(2), [])
            active = m.group(2) if m.group(1) is None else None
            continue
        m = RE_THREAD.match(line)
        if m:
            active = cur.get(m.group(1))
            if active is not None:
                blocks[active].append(m.group(2))
            continue
        if line.startswith("Manual Harness Summary") or line.startswith("Complete - "):
            active = None
            continue
        if active is not None:
            blocks[active].append(line)
    return {k: "\n".join(v) for k, v in blocks.items()}


def classify(h, out, wall):
    """status in {pass, violation, inconclusive, twin_ok, twin_bad} from one harness' output block."""
    name = h["name"]
    r = parse_kani(out)
    r.update({"name": name, "wall_s": round(wall, 2)})
    expect_fail = h.get("expect_fail", False)
    if "CBMC timed out" in out:
        r["status"], r["why"] = "inconclusive", "timeout after %ds" % h.get("timeout", 300)
    elif r["verdict"] == "SUCCESSFUL":
        if r["covers"] is not None and r["covers_sat"] != r["covers"]:
            r["status"], r["why"] = "inconclusive", "vacuity: %s of %s covers satisfied" % (r["covers_sat"], r["covers"])
        elif not r["checks"]:
            r["status"], r["why"] = "inconclusive", "no checks generated"
        else:
            r["status"] = "pass"
    elif r["verdict"] == "FAILED":
        if r["real_failed_checks"]:
            r["status"] = "violation"
        elif r["unwind_fail"]:
            r["status"], r["why"] = "inconclusive", "unwinding assertion failed (bound too small): " + "; ".join(r["failed_checks"][:3])
        elif r["failed"] == 0 and r["covers"] is not None and r["covers_sat"] != r["covers"]:
            r["status"], r["why"] = "inconclusive", "vacuity: %s of %s covers satisfied" % (r["covers_sat"], r["covers"])
        else:
            # "CBMC failed" / "0 of N failed ... FAILED": killed by the address-space cap or crashed
            r["status"], r["why"] = "inconclusive", "FAILED with no failing check (resource limit or tool failure): " + out[-200:].replace("\n", " | ")
    else:
        r["status"], r["why"] = "inconclusive", "no verdict: " + out[-300:].replace("\n", " | ")
    for s_ in h.get("stubs", []):
        if not any(s_ in line for line in r["stubs"]):
            if r["status"] == "pass":
                r["status"], r["why"] = "inconclusive", "expected stub not applied: " + s_
    if expect_fail:
        if r["status"] == "violation":
            r["status"] = "twin_ok"
        elif r["status"] == "pass":
            r["status"], r["why"] = "twin_bad", "false twin passed: harness family is vacuous"
    return r


def run_group(hs, jobs, tag):
    """Run harnesses sharing mode/cbmc args in one cargo-kani invocation (one compile, -j jobs)."""
    tmo = max(h.get("timeout", 300) for h in hs)
    # RLIMIT_AS counts virtual address space, which CBMC reserves far beyond its resident set
    # (a 38 s / 2 GB-RSS harness died under a 16 GB cap): the cap is a backstop only.
    mem = max(56 if any(h.get("huge") for h in hs) else 40, max(h.get("mem_gb", 12) for h in hs))
    logpath = os.path.join(LOGS, "group_%s.log" % tag)
    t0 = time.time()
    # overall cap: every harness could hit its timeout in each of ceil(n/jobs) waves, plus compile
    waves = (len(hs) + jobs - 1) // jobs
    rc, timed_out, wall, out = run_proc(kani_cmd(hs, jobs=jobs, timeout=tmo), KANI_DIR, 600 + waves * (tmo + 60), mem, logpath)
    res = []
    if "could not compile" in out or "Failed to execute cargo" in out or "error: no harnesses matched" in out.lower():
        log(out[-5000:])
        log("BUILD-FAILED (see %s)" % logpath)
        return None
    blocks = split_output(out)
    for h in hs:
        blk = blocks.get(h["name"])
        if blk is None:
            r = {"name": h["name"], "status": "inconclusive", "why": "no output for harness (rc=%s, overall timeout=%s)" % (rc, timed_out),
                 "checks": None, "failed": None, "covers": None, "covers_sat": None, "solver_s": None, "wall_s": round(wall, 2),
                 "real_failed_checks": [], "failed_checks": []}
        else:
            r = classify(h, blk, wall)
        r["log"] = logpath
        res.append(r)
    return res


def weight(h):
    """light: run 12 at a time; heavy (resident set up to ~15 GB): 2 at a time; huge (the 43 KB
    InflateState harnesses, 20-45 GB resident): one at a time - the machine has 62 GB and no swap."""
    if h.get("huge"):
        return 2
    return 1 if h.get("heavy") else 0


def group_key(h):
    return (h.get("mode", "merge"), tuple(h.get("cbmc_args", [])), weight(h))


def run_all(sel, jobs):
    groups = {}
    for h in sel:
        groups.setdefault(group_key(h), []).append(h)
    results = []
    for gi, (k, hs) in enumerate(sorted(groups.items(), key=lambda kv: str(kv[0]))):
        hs.sort(key=lambda h: -h.get("timeout", 300))
        j = min(jobs, len(hs), {0: jobs, 1: 2, 2: 1}[k[2]])
        r = run_group(hs, j, "%s_%d" % (k[0], gi))
        if r is None:
            return None
        for x in r:
            log("  %-52s %-12s checks=%s covers=%s/%s solver=%ss %s %s" % (
                x["name"], x["status"], x["checks"], x["covers_sat"], x["covers"], x["solver_s"],
                x.get("why", ""), "; ".join(x.get("real_failed_checks", [])[:3])))
        results += r
    return results


# ---------------------------------------------------------------- counterexamples and replay

RE_VEC = re.compile(r"//\s*(.*)\n\s*vec!\[([0-9, ]*)\]")


def concrete_values(h):
    """Re-run with concrete playback and return the list of (comment, bytes) per kani::any()."""
    logpath = os.path.join(LOGS, h["name"].replace("::", "__") + ".playback.log")
    rc, timed_out, wall, out = run_proc(kani_cmd([h], playback=True), KANI_DIR, h.get("timeout", 300) * 3 + 300,
                                        max(32, 2 * h.get("mem_gb", 12)), logpath)
    # one section per failing check *and* per satisfied cover; keep the failing checks only
    sections = out.split("Concrete playback unit test for")[1:]
    chosen = None
    for sec in sections:
        m = re.search(r"Check for `(\w+)`: \"(.*)\"", sec)
        kind = m.group(1) if m else "?"
        if kind == "cover" or (m and "unwinding assertion" in m.group(2)):
            continue
        chosen = (sec, m.group(2) if m else None)
        break
    vals, test_src, what = [], None, None
    if chosen:
        sec, what = chosen
        for m in RE_VEC.finditer(sec):
            b = [int(x) for x in m.group(2).replace(" ", "").split(",") if x != ""]
            vals.append({"shown": m.group(1).strip(), "bytes": b})
        m = re.search(r"(#\[test\]\nfn kani_concrete_playback_.*?\n\}\n)", sec, re.S)
        if m:
            test_src = m.group(1)
    return vals, test_src, out


def trace_values(h, names):
    """Fallback when concrete playback emits no test (e.g. overflow checks): read the harness'
    named locals from CBMC's counterexample trace."""
    logpath = os.path.join(LOGS, h["name"].replace("::", "__") + ".trace.log")
    cmd = kani_cmd([h])
    i = cmd.index("--output-format")
    cmd[i + 1] = "old"
    if "--cbmc-args" in cmd:
        cmd += ["--trace"]
    else:
        cmd += ["--cbmc-args", "--trace"]
    rc, timed_out, wall, out = run_proc(cmd, KANI_DIR, h.get("timeout", 300) * 3 + 300, max(32, 2 * h.get("mem_gb", 12)), logpath)
    secs = out.split("\nTrace for ")[1:]
    for sec in secs:
        head = sec.split("\n", 1)[0]
        if ".cover." in head or "unwind" in head:
            continue
        env = {}
        for n in names:
            m = re.search(r"^\s*%s=(-?\d+) " % re.escape(n), sec, re.M)
            if m:
                env[n] = int(m.group(1))
        if env:
            for n in names:
                env.setdefault(n, 0)   # sliced away by CBMC: irrelevant to the failing path
            return env, head
    return None, None


def le(bytes_):
    v = 0
    for i, b in enumerate(bytes_):
        v |= b << (8 * i)
    return v


def playback_native(h, test_src):
    """Run Kani's generated unit test natively (real code, no solver) in a scratch copy of the
    harness crate: dev profile (what Kani models) and release (what users run)."""
    scratch = os.path.join(BUILD, "playback", h["name"].replace("::", "__"))
    shutil.rmtree(scratch, ignore_errors=True)
    shutil.copytree(KANI_DIR, scratch, ignore=shutil.ignore_patterns("target"))
    parts = h["name"].split("::")[:-1]
    modfile = os.path.join(scratch, "src", *parts) + ".rs"
    if not os.path.exists(modfile):
        modfile = os.path.join(scratch, "src", *parts, "mod.rs")
    with open(modfile, "a") as f:
        f.write("\n" + test_src + "\n")
    tname = re.search(r"fn (kani_concrete_playback_\w+)", test_src).group(1)
    results = {}
    for prof in ("dev", "release"):
        cmd = ["cargo", "kani", "playback", "-Z", "concrete-playback"] + feature_args() + ["--", tname]
        if prof == "release":
            # release-like semantics: no debug assertions / overflow checks
            env = dict(ENV)
            env["CARGO_PROFILE_DEV_DEBUG_ASSERTIONS"] = "false"
            env["CARGO_PROFILE_DEV_OVERFLOW_CHECKS"] = "false"
            env["CARGO_PROFILE_DEV_OPT_LEVEL"] = "2"
            env["CARGO_PROFILE_TEST_DEBUG_ASSERTIONS"] = "false"
            env["CARGO_PROFILE_TEST_OVERFLOW_CHECKS"] = "false"
            env["CARGO_PROFILE_TEST_OPT_LEVEL"] = "2"
        else:
            env = ENV
        try:
            p = subprocess.run(cmd, cwd=scratch, env=env, stdout=subprocess.PIPE, stderr=subprocess.STDOUT,
                               text=True, timeout=900)
        except subprocess.TimeoutExpired:
            results[prof] = {"reproduced": False, "built": False, "tail": "native playback timed out (900 s)"}
            continue
        failed = ("test result: FAILED" in p.stdout) or ("panicked at" in p.stdout) or p.returncode != 0
        built = ("running 1 test" in p.stdout) or ("test result:" in p.stdout) or ("panicked at" in p.stdout)
        results[prof] = {"reproduced": bool(failed and built), "built": built, "tail": p.stdout[-1500:]}
    shutil.rmtree(os.path.join(scratch, "target"), ignore_errors=True)
    return results


def native_cmd_replay(pid, h, vals):
    spec = h["replay"]
    names = spec["vals"]
    env = {"pid": pid}
    if len(vals) < len(names):
        tenv, head = trace_values(h, names)
        if tenv is None:
            return {"dev": {"reproduced": False, "built": False, "tail": "no concrete values extracted"}}, {}
        env.update(tenv)
        env["_from_trace"] = head
    else:
        for i, n in enumerate(names):
            v = le(vals[i]["bytes"])
            if spec.get("signed"):
                bits = 8 * len(vals[i]["bytes"])
                if v >= 1 << (bits - 1):
                    v -= 1 << bits
            env[n] = v
    if "map" in spec:
        env = spec["map"](env)
    args = [a.format(**env) for a in spec["cmd"]]
    results = {}
    for prof in ("dev", "release"):
        b = replay_build(prof)
        if not b:
            results[prof] = {"reproduced": False, "built": False, "tail": "replay build failed"}
            continue
        p = subprocess.run([b] + args, stdout=subprocess.PIPE, stderr=subprocess.STDOUT, text=True, timeout=600)
        results[prof] = {"reproduced": ("REPRODUCED " + pid) in p.stdout and p.returncode == 1, "built": True,
                         "tail": p.stdout[-1500:], "argv": ["mzreplay"] + args}
    return results, env


def triage_violation(pid, h, r):
    """Turn a FAILED harness into a replay file + verdict 'violation' / 'unreproduced'."""
    os.makedirs(REPLAYS, exist_ok=True)
    vals, test_src, pb_out = concrete_values(h)
    rep = {"property": pid, "harness": h["name"], "failed_checks": r["real_failed_checks"],
           "clause": h.get("clause"), "bound": h.get("bound"), "concrete_values": vals,
           "playback_test": test_src}
    kind = h.get("replay", {}).get("kind", "playback" if not h.get("stubs_change_behaviour") else "model")
    rep["replay_kind"] = kind
    sig_env = {}
    if kind == "native":
        res, sig_env = native_cmd_replay(pid, h, vals)
        rep["native"] = res
        reproduced = any(x["reproduced"] for x in res.values())
    elif kind == "playback" and test_src:
        res = playback_native(h, test_src)
        rep["native"] = res
        reproduced = any(x["reproduced"] for x in res.values())
    elif kind == "playback":
        reproduced = False
        rep["native"] = {"error": "no playback test produced", "tail": pb_out[-1500:]}
    else:
        # assume-guarantee harness: the counterexample is a behaviour of the *contract stub*;
        # it is re-confirmed by the solver with the values fixed (playback run above) and
        # reported as a model-level violation of the real wrapper code.
        reproduced = bool(vals)
        rep["native"] = {"note": "wrapper-vs-contract harness: counterexample is over the stubbed callee's "
                                 "legal behaviours; no native input exists by construction"}
    sig = h["name"]
    if "sig" in h.get("replay", {}):
        try:
            sig = h["name"] + ":" + h["replay"]["sig"](sig_env)
        except Exception as e:  # signature function must not hide a violation
            sig = h["name"] + ":sigerr"
    rep["signature"] = sig
    rep["replay_env"] = {k: v for k, v in sig_env.items() if not callable(v)}
    path = os.path.join(REPLAYS, "%s__%s.json" % (pid, h["name"].replace("::", "__")))
    with open(path, "w") as f:
        json.dump(rep, f, indent=1)
    return reproduced, sig, path


# ---------------------------------------------------------------- known findings

def load_known():
    if not os.path.exists(KNOWN):
        return []
    return json.load(open(KNOWN)).get("findings", [])


# ---------------------------------------------------------------- main

def replay_file(path):
    rep = json.load(open(path))
    hs = {h["name"]: h for h in load_registry()}
    h = hs.get(rep["harness"])
    if not h:
        log("unknown harness in replay file")
        return 2
    regenerate()
    set_features([h.get("feature")])
    os.makedirs(LOGS, exist_ok=True)
    rr = run_group([h], 1, "replay")
    if rr is None:
        return 2
    r = rr[0]
    log("re-run of %s: %s %s" % (h["name"], r["status"], r.get("why", "")))
    if r["status"] != "violation":
        return 0 if r["status"] == "pass" else 2
    reproduced, sig, p = triage_violation(rep["property"], h, r)
    log("replay: reproduced=%s signature=%s file=%s" % (reproduced, sig, p))
    return 1 if reproduced else 2


def dev_run(pattern):
    """development aid: run every registered harness whose name matches the regex."""
    regenerate()
    os.makedirs(LOGS, exist_ok=True)
    if pattern == "@thorough":
        reg = [h for h in load_registry() if h.get("tier", "quick") == "thorough"]
    else:
        reg = [h for h in load_registry() if re.search(pattern, h["name"])]
    set_features([h.get("feature") for h in reg])
    jobs = int(os.environ.get("VERIF_JOBS", "0") or 0) or 12
    t0 = time.time()
    res = run_all(reg, jobs)
    if res is None:
        return 2
    log("%d harnesses in %.0fs" % (len(res), time.time() - t0))
    return 1 if any(r["status"] not in ("pass", "twin_ok") for r in res) else 0


def main(argv):
    if len(argv) >= 2 and argv[0] == "--replay":
        return replay_file(argv[1])
    if len(argv) >= 2 and argv[0] == "--run":
        return dev_run(argv[1])
    if not argv:
        log(__doc__ if __doc__ else "usage: check <id> [quick|thorough]")
        return 2
    pid = argv[0]
    tier = argv[1] if len(argv) > 1 else os.environ.get("VERIF_TIER", "quick")
    if "--replay" in argv:
        return replay_file(argv[argv.index("--replay") + 1])
    seed = int(os.environ.get("VERIF_SEED", "0") or 0)
    t_start = time.time()
    os.makedirs(EVIDENCE, exist_ok=True)
    os.makedirs(LOGS, exist_ok=True)
    evpath = os.path.join(EVIDENCE, pid + ".json")
    if os.path.exists(evpath):
        os.remove(evpath)

    regenerate()
    reg = load_registry()
    def in_quick(h):
        return h.get("tier", "quick") == "quick" and ("quick_for" not in h or pid in h["quick_for"])
    sel = [h for h in reg if pid in h["props"] and h.get("tier", "quick") != "experimental" and (tier == "thorough" or in_quick(h))]
    if not sel:
        log("no harnesses registered for", pid)
        return 2
    # heaviest first so the pool drains evenly
    sel.sort(key=lambda h: -h.get("timeout", 300))

    set_features([h.get("feature") for h in sel])
    # goto-instrument needs 8-22 GB for the largest generated harnesses (measured): 6 at a time keeps the peak well under this machine's 62 GB
    jobs = int(os.environ.get("VERIF_JOBS", "0") or 0) or min(6, max(1, (os.cpu_count() or 4) - 2))
    log("%d harnesses for %s/%s (features: %s)" % (len(sel), pid, tier, ",".join(FEATURES) or "-"))
    results = run_all(sel, jobs)
    if results is None:
        return 2

    byname = {h["name"]: h for h in sel}
    known = load_known()
    violations, known_hits, inconclusive, unreproduced, also_failed = [], [], [], [], []
    viol = sorted([r for r in results if r["status"] == "violation"], key=lambda r: (r.get("solver_s") or 1e9))
    for r in results:
        if r["status"] in ("inconclusive", "twin_bad"):
            inconclusive.append(r)
    # Counterexample extraction re-runs CBMC in trace mode (several times slower than the check):
    # triage the cheapest failing harness first; once one counterexample of this property is
    # confirmed (or suppressed as known), the remaining failing harnesses are listed with it.
    confirmed = None
    for r in viol:
        h = byname[r["name"]]
        if confirmed is not None:
            r["replay"] = confirmed["replay"]
            r["signature"] = h["name"]
            also_failed.append(r)
            continue
        reproduced, sig, path = triage_violation(pid, h, r)
        r["replay"] = path
        r["signature"] = sig
        kf = [k for k in known if k.get("status") == "known" and k.get("property") == pid
              and k.get("signature") == sig]
        if not reproduced:
            unreproduced.append(r)
        elif kf:
            known_hits.append((r, kf[0]))
        else:
            violations.append(r)
            confirmed = r

    # ---- evidence
    passed = [r for r in results if r["status"] in ("pass", "twin_ok")]
    nontrivial = [r for r in passed if (r["checks"] or 0) > 0 and (r["covers"] is None or r["covers_sat"] == r["covers"])]
    obligations = sum((r["checks"] or 0) for r in results)
    discharged = sum((r["checks"] or 0) - (r["failed"] or 0) for r in passed)
    funcs = sorted({f for h in sel for f in h.get("functions", [])})
    stubs = sorted({s for h in sel for s in h.get("stubs", [])})
    assumptions = sorted({a for h in sel for a in h.get("assumes", [])})
    samples = []
    for r in results:
        h = byname[r["name"]]
        samples.append({"harness": r["name"], "kind": h.get("kind"), "clause": h.get("clause"),
                        "bound": h.get("bound"), "mode": h.get("mode", "merge"), "status": r["status"],
                        "cbmc_checks": r["checks"], "covers": "%s/%s" % (r["covers_sat"], r["covers"]),
                        "solver_s": r["solver_s"], "wall_s": r["wall_s"], "note": r.get("why")})
    ev = {
        "property_id": pid, "tier": tier, "seed": seed, "level": "model_checking",
        "coverage": {
            "evaluations": len(results),
            "distinct_nontrivial": len(nontrivial),
            "rule": "one evaluation = one Kani proof harness (one or more CBMC SAT queries over all symbolic "
                    "inputs inside the harness' bound); non-trivial = verdict SUCCESSFUL with >0 CBMC checks, "
                    "unwinding assertions on, and every kani::cover! reachability witness SATISFIED "
                    "(deliberately false twins count when they come back violated)",
            "samples": samples,
            "obligations": obligations,
            "discharged": discharged,
            "checker_cmd": "cargo kani -Z stubbing --harness <h> --exact --no-assertion-reach-checks (CBMC 6.11, cadical; "
                           "--paths lifo for path-mode harnesses)",
            "trusted_base": ["Kani 0.68 MIR->goto translation", "CBMC 6.11 / cadical",
                             "harness-side references in /verif/kani/src/refs.rs",
                             "model stubs listed under stubs"],
            "functions_encoded": funcs,
            "stubs": stubs,
            "solver_s_total": round(sum((r["solver_s"] or 0) for r in results), 2),
            "inconclusive": [{"harness": r["name"], "why": r.get("why")} for r in inconclusive + unreproduced],
            "known_findings_hit": [k["signature"] for _, k in known_hits],
            "exhaustive": False,
            "explanation": "Bounded symbolic model checking of the real Rust code compiled from /repo's working tree. "
                           "Each harness states its bound; everything outside the bounds listed per sample is not claimed.",
        },
        "assumptions": assumptions,
        "wall_s": round(time.time() - t_start, 2),
        "violations": len(violations) + len(also_failed),
    }
    with open(evpath, "w") as f:
        json.dump(ev, f, indent=1)

    for r, k in known_hits:
        log("KNOWN-FINDING: property=%s %s" % (pid, k.get("what", k["signature"])))
    for r in unreproduced:
        log("UNREPRODUCED counterexample for %s (encoding or stub suspect): %s" % (r["name"], r.get("replay")))
    for r in inconclusive:
        log("INCONCLUSIVE %s: %s" % (r["name"], r.get("why")))
    if violations:
        for r in violations:
            log("VIOLATION property=%s replay=%s" % (pid, r["replay"]))
            log("  harness %s failed: %s" % (r["name"], "; ".join(r["real_failed_checks"][:4])))
        for r in also_failed:
            log("  also failed: %s: %s" % (r["name"], "; ".join(r["real_failed_checks"][:2])))
        return 1
    if inconclusive or unreproduced:
        return 2
    log("OK property=%s tier=%s harnesses=%d checks=%d wall=%.0fs" % (pid, tier, len(results), obligations, time.time() - t_start))
    return 0
