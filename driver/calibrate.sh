#!/bin/sh
# runs every quick check once on the current tree and prints one line per property
cd /verif
for p in "$@"; do
  s=$(date +%s); ./check $p quick > /tmp/q_$p.log 2>&1; rc=$?; e=$(date +%s)
  echo "$p rc=$rc wall=$((e-s))s harnesses=$(grep -c '^  [a-z]' /tmp/q_$p.log) $(grep '^INCONCLUSIVE\|^VIOLATION\|^UNREPRODUCED\|BUILD-FAILED' /tmp/q_$p.log | head -2 | tr '\n' '|' | cut -c1-220)"
done
