"""Per-property claim texts for MANIFEST.json (see DESIGN.md §5 for the full bounds)."""
TB = ("Trusted: Kani 0.68 MIR->goto translation, CBMC 6.11/cadical, the harness-side references (refs.rs, stored_model.py; validated by `mzreplay refcheck` "
      "and by the harnesses passing on the real code). ")
CUTS = "Decoder harnesses cut every path into Huffman blocks (init_tree, decode_huffman_code, decompress_fast, transfer, apply_match stubbed with assume(false)): only the stored-block language is decided end to end. "
TEXT = {
 "C01": dict(text="Bounded model checking of the real code: level->flag mapping for every i32/u8 argument (exact); real compress() at level 0 on 0..3 symbolic bytes produces a stream an "
                  "independent stored decoder maps back to the input; the vector helpers' retry/doubling loops deliver exactly what the core produced for every core behaviour within the contract. "
                  "Levels 1-10 and inputs > 3 bytes are outside the bound.",
             note=TB + "Wrapper harnesses assume the K/D contracts of DESIGN.md 5.0 for the stubbed core."),
 "C02": dict(text="Real streaming deflate() for every 3-call schedule (sizes 0..3, 5 flush values) against any core behaviour within contract K1-K5, plus the real core at level 0 for a Finish call "
                  "on <= 3 symbolic bytes (counts within offered buffers, output decodes to the input). Levels >= 1, suspended Huffman blocks and longer schedules are outside the bound.",
             note=TB + "K1-K5 are assumptions beyond the level-0 bound."),
 "C03": dict(text="RFC 1951 length/distance tables of the decoder (exact); the LZ77 copy kernels on a 16-byte buffer for every position/distance/length <= 9 (thorough); stored-block streams "
                  "(1-3 blocks, payload <= 3 symbolic bytes, raw and zlib) through the real decompress() under every cut point and one-byte feeding; vector / slice-iterator helpers against the core contract. "
                  "Huffman-coded streams are NOT decoded end to end by any harness.",
             note=TB + CUTS),
 "C04": dict(text="zlib header acceptance <=> RFC 1950 for all 2^16 headers x flag words x ring sizes (exact); every failure state and the done state are absorbing for arbitrary registers/inputs/flags; "
                  "invalid stored-language streams (reserved block type, LEN/NLEN mismatch, bad zlib headers) are rejected exactly at the offending byte under every cut point and stay rejected; "
                  "every proper prefix of valid stored streams yields NeedsMoreInput / FailedCannotMakeProgress, never Failed or Done. Rejection rules that need Huffman tables are outside the bound.",
             note=TB + CUTS + "Injected-state harnesses assume the representation invariant num_bits <= 61, bit_buf < 2^num_bits, valid running Adler value."),
 "C05": dict(text="No panic (Rust checks incl. overflow, index, debug_assert in the dev profile), termination (unwinding assertions) and count bounds for: the parameter check from 7 automaton states "
                  "with a fully symbolic decoder (BadParam <=> unusable geometry, state untouched); all terminal states; stored-language streams under every small output geometry "
                  "(slice 0..5 x every out_pos x budgets, rings 0/1/2/4) and every cut point; OutputBuffer arithmetic for all usize positions/budgets. Malformed Huffman tables x geometry are outside the bound.",
             note=TB + CUTS),
 "C06": dict(text="undo_bytes arithmetic (exact); for stored streams (raw and zlib, 1-3 blocks) followed by 0-2 arbitrary trailing bytes the summed consumed count equals the exact stream length for the "
                  "one-call schedule, every single cut point and one-byte feeding; the C wrapper's pointer/total accounting equals the core's counts. The bit-buffer read-ahead after Huffman blocks is outside the bound.",
             note=TB + CUTS),
 "C07": dict(text="For stored streams the per-call results under every single cut point, one-byte feeding and every small output budget sequence equal one reference model of the uninterrupted decode "
                  "(same bytes, verdict, summed counts), flat and ring. Huffman states are outside the bound.",
             note=TB + CUTS),
 "C08": dict(text="Stored streams under every (slice length <= payload+2, out_pos, budget sequence from {unlimited,0,1,2}) flat and rings 0/1/2/4: bytes outside the granted window unchanged (all other cells "
                  "compared with their symbolic initial values), written = position delta, HasMoreOutput only with the window full, NeedsMoreInput only with all input consumed; copy kernels' frame condition; "
                  "size-limited vector helpers for every limit 0..8 against the core contract.",
             note=TB + CUTS + "Vector-limit harness assumes the core contract D1-D8."),
 "C09": dict(text="Emitted header valid per RFC 1950 with CINFO = max(w,8)-8 for all flag words x window bits (exact); accepted headers <=> RFC 1950 (exact); real level-0 compress emits header once and a "
                  "big-endian Adler-32 trailer of the input; on decode, for fixed payloads ALL 2^32 trailer values: Done <=> trailer = Adler-32(payload) else Adler32Mismatch (IGNORE_ADLER32 => Done), under every cut point, flat and 256-byte ring.",
             note=TB + CUTS),
 "C10": dict(text="Level/strategy -> flags for all i32 arguments (exact); for every (format, level, strategy, window_bits) the real with_params + compress_inner select the back end that implements the requested "
                  "mode (found and fixed: RLE flag was ignored); for every match length 3..258 and distance 1..32768 the real record_match + compress_lz_codes emit exactly the RFC 1951 symbols and extra bits; "
                  "level 0 emits only stored blocks with one final block (n <= 3). What compress_normal/compress_fast do once selected is outside the bound.",
             note=TB + "Routing harness replaces the three back ends and flush_block by marker stubs."),
 "C11": dict(text="CINFO = max(w,8)-8 for all flag words (exact); for zlib with window_bits < 12 the library forces RLE and (after the fix found by this harness) routes to the only back end that implements it, "
                  "for all levels/strategies; window_bits < 15 => at most one probe. That the level-1 back ends keep distances within 2^w for w = 12..14 is NOT decided here (see DESIGN.md §6).",
             note=TB + "Back ends are marker stubs in the routing harness."),
 "C12": dict(text="Real compress() at level 0 with Sync/Full/Partial flush on <= 2 symbolic bytes: the emitted prefix decodes (independent stored decoder) to all input so far and Sync/Full end with 00 00 FF FF "
                  "on a byte boundary. Levels >= 1 and multi-call drains are outside the bound.",
             note=TB),
 "C13": dict(text="Real inflate(): quick tier: inductive step from an arbitrary wrapper state for a full-flush request (stream error, nothing touched) and the done state of the core repeating; thorough tier (550-770 s each): "
                  "inductive step for every branch that must not reach the core (sticky errors, Finish stickiness, pending-window hand-off with ring wrap) and a first call with every format/flush/size combination against any core "
                  "behaviour within contract D1-D7 (counts within buffers, delivered bytes are the next plaintext bytes, StreamEnd <=> core done and all delivered, progress, wrapper invariant, window integrity). Call sequences do not fit.",
             note=TB + "Conditional on D1-D7; the contract stub produces <= 3 bytes per core call."),
 "C14": dict(text="Real deflate() for every sequence of three calls (input 0..2, output 0..3, 5 flush values) against any core behaviour within K1-K5: every clause of the property is an assertion; plus the real "
                  "core at level 0 (Done only after Finish, BadParam afterwards).",
             note=TB + "Conditional on K1-K5 beyond the level-0 bound."),
 "C15": dict(text="For all n < 2^32: mz_deflateBound(n) >= exact size of the level-0 zlib stream and >= both arms of the documented sufficient bound, no overflow, mz_compressBound identical (exact); the size formula is tied to the real "
                  "compressor by the level-0 harnesses (n <= 3) and by refcheck at block-cut boundaries. Expansion at levels >= 1 on adversarial data is outside the bound.",
             note=TB),
 "C16": dict(text="Adler-32 update = RFC 1950 definition for every valid running value and 2 bytes, 4 bytes with every split (thorough); compressor's running Adler at level 0; decoder's adler32() for fixed "
                  "payloads under every schedule. NMAX-length inputs, the SIMD build and crc32fast's intrinsics path are outside the bound (refcheck compares them natively only).",
             note=TB),
 "C17": dict(text="The real extern \"C\" mz_inflate* wrappers with CBMC pointer checks: pointer advance = avail drop = total rise for every avail 0..3 and any core result; misuse matrix over all i32 parameter "
                  "values returns error codes without panicking (found and fixed: window_bits = INT_MIN overflowed); tinfl_decompress rebuilds exactly the caller's window; checksum wrappers handle null / zero length. mz_deflate's accounting (same code shape) exhausts CBMC's memory and is not claimed.",
             note=TB + "catch_unwind modelled as identity (panic=abort); inner inflate()/deflate() replaced by contract stubs."),
 "C18": dict(text="Low-level decoder: from a fully arbitrary prior state, init() + a stored stream gives exactly the results of a new decoder (3 schedules, raw and zlib incl. checksum state). Compressor: reset() from a fully "
                  "arbitrary 300 KB state equals new(flags) on all 28 scalars and every array entry. Streaming-inflate reset policies and mz_deflateReset do not fit (MinReset keeps the window by design).",
             note=TB + CUTS),
 "C19": dict(text="Block-boundary record: Some exactly in ReadBlockHeader, < 8 pending bits, rebuild preserves every register read afterwards (fully symbolic decoder); stop-at-boundary on stored streams: exactly one "
                  "stop per non-final block, continuing from the same or a REBUILT decoder gives the model's results incl. checksum verdict; clone() copies all registers (quick) and arrays (thorough). Serde is not covered.",
             note=TB + CUTS),
}
NOT_APPLICABLE = {
 "C20": "no unsafe / no_std buildability / Send+Sync+'static are verdicts of the compiler front end over program text; there is no execution to make symbolic and nothing for an SMT/SAT solver to decide (DESIGN.md §5 C20)",
}
