"""Harness registry: which Kani harness decides which clause of which property, with its bound."""
import json, os

VERIF = os.path.dirname(os.path.dirname(os.path.abspath(__file__)))

H = []

def add(name, props, clause, bound, kind="L", tier="quick", timeout=300, **kw):
    d = dict(name=name, props=props, clause=clause, bound=bound, kind=kind, tier=tier, timeout=timeout)
    d.update(kw)
    H.append(d)

# ----------------------------------------------------------------- L tier (leaf kernels, exact)
add("leaf::l_zlib_header_accept", ["C04", "C09"],
    "validate_zlib_header accepts exactly the RFC 1950 headers (CM=8, CINFO<=7, FDICT=0, FCHECK) whose window fits the ring",
    "all cmf,flg in u8 x all flag words u32 x ring sizes 2^0..2^20 (exact)",
    functions=["inflate::core::validate_zlib_header"])
add("leaf::l_undo_bytes", ["C06"],
    "undo_bytes returns min(num_bits/8, max) whole bytes and leaves the remaining bits",
    "all num_bits <= 64, all max: u32 (exact)", functions=["inflate::core::undo_bytes"])
add("leaf::l_state_ids", ["C03", "C04", "C07"],
    "hook sanity: automaton state ids used by injected-state harnesses are the enum's own discriminants; is_failure <=> id >= 25",
    "all u8 ids (exact)", functions=["inflate::core::State", "verif::state_from_id"])
add("leaf::l_inflate_rfc_tables", ["C03"],
    "LENGTH_BASE/LENGTH_EXTRA/DIST_BASE/num_extra_bits_for_distance_code equal RFC 1951 3.2.5 for every symbol; filler entries >= 259",
    "all 29 length symbols, all 30 distance symbols (exact)",
    functions=["inflate::core::LENGTH_BASE", "LENGTH_EXTRA", "DIST_BASE", "num_extra_bits_for_distance_code"])
add("leaf::l_header_from_flags", ["C09", "C11"],
    "emitted zlib header is RFC 1950-valid, CINFO = max(w,8)-8, and the crate's own validator accepts it (flat, and ring = declared window)",
    "all flag words u32 x window_bits 0..=15 (exact)",
    functions=["deflate::zlib::header_from_flags", "add_fcheck", "zlib_level_from_flags", "inflate::core::validate_zlib_header"])
add("leaf::l_comp_flags", ["C01", "C10"],
    "create_comp_flags_from_zip_params: no panic; level>10 == 10; level<0 == 6; level 0 => raw-blocks flag; strategy -> exactly its flag; zlib flag iff window_bits>0",
    "all (level, window_bits, strategy) in i32^3 and all u8 levels as the one-shot API passes them (exact)",
    functions=["deflate::core::create_comp_flags_from_zip_params"])
add("leaf::l_outbuf_geometry", ["C05", "C08"],
    "OutputBuffer: max = min(pos+budget, len) with saturating add, bytes_left = max-pos, never above the budget",
    "slice len 0..=8, all pos <= len, all budgets in usize (exact in pos/budget)",
    functions=["inflate::output_buffer::OutputBuffer::from_slice_pos_and_max", "bytes_left"])
add("leaf::l_emit_one_match", ["C10"],
    "for every match the real record_match + compress_lz_codes emit the RFC 1951 length symbol/extra bits and distance symbol/extra bits, then EOB; frequency tables count exactly those symbols",
    "all len 3..=258 x all dist 1..=32768 (exact), identity Huffman code supplied by the hook",
    functions=["deflate::core::record_match", "compress_lz_codes", "LEN_SYM", "LEN_EXTRA", "SMALL_DIST_SYM", "SMALL_DIST_EXTRA", "LARGE_DIST_SYM", "LARGE_DIST_EXTRA", "BitBuffer::put_fast", "BitBuffer::flush", "OutputBufferOxide::put_bits"],
    timeout=600)

# ----------------------------------------------------------------- W tier, compressor side
def _route_args(env):
    env = dict(env)
    env["fmt_s"] = "zlib" if env.get("fmt", 0) == 1 else "raw"
    return env

def _route_sig(env):
    lvl = min(env.get("level", 0), 10)
    w = min(env.get("wb", 0), 15)
    strat = env.get("strat", 0)
    if lvl != 0 and (strat == 3 or (w < 12 and strat != 2)):
        return "rle-flag-not-routed-to-compress_normal"
    return "other-routing"

_ROUTE_COMMON = dict(
    kind="W", timeout=600, mem_gb=16,
    functions=["deflate::core::CompressorOxide::with_params", "limit_level_by_window_bits", "create_comp_flags_from_zip_params",
               "compress", "compress_inner", "flush_output_buffer", "ParamsOxide::new", "DictOxide::new"],
    stubs=["compress_fast -> dcore :: verif :: mark_compress_fast", "compress_normal -> dcore :: verif :: mark_compress_normal",
           "compress_stored -> dcore :: verif :: mark_compress_stored", "flush_block -> dcore :: verif :: mark_flush_block"],
    assumes=["the three back ends behave as their names say once selected (decided separately where a harness reaches them)"],
    replay=dict(kind="native", vals=["fmt", "level", "strat", "wb"], map=_route_args,
                cmd=["route", "{fmt_s}", "{level}", "{strat}", "{wb}"], sig=_route_sig))
_ROUTE_BOUND = "all (format in {raw, zlib}) x level u8 x 5 strategies x window_bits u8 (exact); back ends and flush_block are marker stubs"
add("wrap_deflate::w_routing_c10", ["C10"],
    "settings -> flags (level 0 <=> raw; strategy -> its flag; huffman-only -> 0 probes) and flags -> back end: raw -> compress_stored; "
    "filter -> compress_normal; RLE requested -> compress_normal (the only back end that restricts matches to distance 1); else fast iff one probe and greedy",
    _ROUTE_BOUND, **_ROUTE_COMMON)
add("wrap_deflate::w_routing_c11", ["C11"],
    "zlib with window_bits < 12 (header declares <= 2 KiB): RLE flag is forced (unless huffman-only / level 0) and the RLE-implementing back end is selected; "
    "window_bits < 15 => at most one probe",
    _ROUTE_BOUND, **_ROUTE_COMMON)

# ----------------------------------------------------------------- C ABI shim
CATCH = "catch_unwind -> catch_unwind_identity"
add("capi::l_deflate_bound", ["C15"],
    "mz_deflateBound(n) >= exact size of the level-0 zlib stream for n bytes (n + 6 + 5*(n/31745+1), from stored.rs's block cut rule); "
    "no overflow; not below either arm of the documented sufficient bound (128 + 1.1 n, 128 + n + 5 per 31 KiB block); mz_compressBound(n) is the same value",
    "all n < 2^32 (exact)", functions=["mz_deflateBound", "mz_compressBound"], timeout=300,
    assumes=["level-0 stream size formula derived from stored.rs (validated against the real compressor for n <= 3 in e_comp and natively in refcheck)"])
add("capi::w_mz_inflate", ["C17", "C06"],
    "real extern \"C\" mz_inflateInit/mz_inflate/mz_inflateEnd: return code = mapped Rust status; next_in/next_out advance = drop in avail_* = rise in total_* "
    "(wrapping), never beyond what was available; flush outside 0..=4 => MZ_PARAM_ERROR with nothing moved; partial flush treated as sync; "
    "every access stays inside the declared (ptr, avail) ranges (CBMC pointer checks, buffers end at their object's end)",
    "avail_in, avail_out in 0..=3 (symbolic), totals arbitrary u64, flush arbitrary i32, inner inflate() = any result within the offered buffers",
    kind="W", timeout=600, functions=["mz_inflateInit", "mz_inflateInit2", "mz_inflate", "mz_inflateEnd", "oxidize!", "StreamOxide::try_new",
                                      "StreamOxide::into_mz_stream", "mz_inflate_oxide", "mz_inflate_init2_oxide", "MZFlush::new", "as_c_return_code"],
    stubs=[CATCH, "inflate -> inflate_contract"], stubs_change_behaviour=True,
    assumes=["inner inflate() stays within its slices (decided for the real inflate() by the C13 harnesses under D1)", "catch_unwind is the identity (panic=abort model; panics are reported as failures)"])
add("capi::w_mz_misuse", ["C17"],
    "misuse expressible in C returns an error code, no panic: null stream for every entry point => MZ_STREAM_ERROR; mz_deflateInit2 succeeds iff method=8, "
    "mem_level in 1..=9, window_bits = +-15, else MZ_PARAM_ERROR with no state; mz_inflateInit2 iff window_bits = +-15; stream of the other kind / never "
    "initialised => MZ_PARAM_ERROR; missing buffers => MZ_STREAM_ERROR with state kept",
    "all (flush, level, method, window_bits, mem_level, strategy) in i32^6 (exact)",
    kind="W", timeout=900, mem_gb=24,
    functions=["mz_deflateInit2", "mz_inflateInit2", "mz_deflate", "mz_inflate", "mz_deflateEnd", "mz_inflateEnd", "mz_deflateReset", "invalid_window_bits",
               "mz_deflate_init2_oxide", "mz_inflate_init2_oxide", "StreamOxide::try_new"],
    stubs=[CATCH], assumes=["catch_unwind is the identity (panic=abort model; panics are reported as failures)"],
    replay=dict(kind="native", signed=True, vals=["flush", "level", "method", "wbits", "mem", "strat"],
                cmd=["capi-init", "{level}", "{method}", "{wbits}", "{mem}", "{strat}"],
                sig=lambda env: "init-window-bits-negation-overflow" if env.get("wbits") == -2**31 else "other-init-misuse"))

# ----------------------------------------------------------------- W tier, decoder side (contract stub D1-D7)
DSTUB = "decompress -> decompress_contract"
D_ASSUME = ["core decompress obeys D1-D7 of DESIGN.md 5.0 (decided on the real core for the stored-block language by the generated E families; assumed beyond)",
            "contract stub produces at most 3 (vec harness: 8) bytes per core call"]
INFL_FUNCS = ["inflate::stream::inflate", "inflate_loop", "push_dict_out", "InflateState::new_boxed"]
add("wrap_inflate::w_inflate_first", ["C13"],
    "real inflate(), first call on a fresh state, any core behaviour allowed by D1-D7: counts <= offered; delivered bytes = next plaintext bytes; Full => Stream error, "
    "nothing changed; StreamEnd <=> core Done and everything delivered; progress with non-empty buffers; wrapper invariant dict_ofs < 32768, dict_ofs+dict_avail <= 32768",
    "3 formats x flush in {None,Sync,Finish,Full} x input 0..=2 bytes x output 0..=2 bytes (all symbolic)",
    kind="W", tier="thorough", timeout=1800, mem_gb=24, heavy=True, functions=INFL_FUNCS, stubs=[DSTUB], assumes=D_ASSUME, stubs_change_behaviour=True)
add("wrap_inflate::w_inflate_format_flags", ["C09", "C13"],
    "data format -> decoder flags as seen by the core: zlib header parsed iff Zlib/ZLibIgnoreChecksum; checksum ignored iff not Zlib; HAS_MORE_INPUT iff flush != Finish; "
    "first-call Finish decodes into the caller's buffer (non-wrapping)",
    "3 formats x flush in {None,Sync,Finish}, 2-byte input and output", kind="W", tier="thorough", timeout=1800, mem_gb=24, heavy=True,
    functions=INFL_FUNCS, stubs=[DSTUB], assumes=D_ASSUME, stubs_change_behaviour=True)
add("wrap_inflate::w_vec_limit", ["C08", "C01", "C03", "C05"],
    "decompress_to_vec(_zlib)_with_limit over any core behaviour: Ok vector = exactly the produced plaintext and <= limit; errors hand back the decoded prefix, never longer "
    "than the limit; HasMoreOutput only when produced == limit; doubling loop terminates; flags: non-wrapping, zlib iff requested, no HAS_MORE_INPUT",
    "input 0..=1 bytes, limit 0..=4 (symbolic), both formats", kind="W", timeout=1500, mem_gb=24, tier="thorough", heavy=True,
    functions=["inflate::decompress_to_vec_inner", "decompress_to_vec_with_limit", "decompress_to_vec_zlib_with_limit"],
    stubs=["decompress -> decompress_contract_fresh"], assumes=D_ASSUME + ["D8: a fresh decoder offered no input only reports starvation"], stubs_change_behaviour=True)
add("wrap_inflate::w_slice_iter", ["C03", "C05"],
    "decompress_slice_iter_to_slice over two slices: Ok(n) <=> core Done with n = bytes produced; output holds the produced prefix; HAS_MORE_INPUT announced for every slice but the last; "
    "never returns Ok on NeedsMoreInput",
    "2 slices of 0..=2 bytes, output 0..=4 bytes, zlib/ignore flags symbolic", kind="W", timeout=900,
    functions=["inflate::decompress_slice_iter_to_slice"], stubs=[DSTUB], assumes=D_ASSUME, stubs_change_behaviour=True)

# ----------------------------------------------------------------- W tier, compressor side (contract stub K1-K5)
K_ASSUME = ["core compress obeys K1-K5 of DESIGN.md 5.0 (decided on the real core at level 0, n <= 3, by e_comp; assumed beyond)"]
add("wrap_deflate::w_deflate_seq3", ["C14", "C02"],
    "real deflate(), every sequence of three calls on a fresh compressor, any core behaviour within K1-K5: counts <= offered; empty output refused without side effects; "
    "with Finish: StreamEnd or output completely full; StreamEnd only after Finish with all input consumed; afterwards Finish => StreamEnd (0,0), else Buf error; "
    "non-Finish after Finish => Param error; Buf error only when there was nothing to do",
    "3 calls x input 0..=2 x output 0..=3 x 5 flush values (all symbolic)", kind="W", timeout=900, mem_gb=16,
    functions=["deflate::stream::deflate"], stubs=["compress -> compress_contract"], assumes=K_ASSUME, stubs_change_behaviour=True)
add("wrap_deflate::w_compress_to_vec", ["C01"],
    "compress_to_vec / compress_to_vec_zlib over any core behaviour within K1-K5: returns exactly the bytes the core emitted, in order; the 'Bug!' panic is unreachable; retry loop terminates",
    "input 0..=3 bytes, all u8 levels, total compressed size <= 12 bytes", kind="W", timeout=1500, mem_gb=24, tier="thorough",
    functions=["deflate::compress_to_vec_inner"], stubs=["compress -> compress_contract_writing"], assumes=K_ASSUME, stubs_change_behaviour=True)

# ----------------------------------------------------------------- E tier, compressor level 0
COMP_FUNCS = ["deflate::core::compress", "compress_inner", "compress_stored", "flush_block", "flush_output_buffer", "OutputBufferOxide::*",
              "CallbackBuf::flush_output", "zlib::header_from_flags", "update_adler32"]
for (hn, tier, z, n, props) in [("e_comp0_raw_n2", "quick", False, 2, ["C01", "C15", "C10"]), ("e_comp0_zlib_n1", "thorough", True, 1, ["C09", "C16"]),
                                ("e_comp0_raw_n0", "thorough", False, 0, ["C01", "C10"]), ("e_comp0_zlib_n3", "thorough", True, 3, ["C15", "C16", "C09"])]:
    add("e_comp::" + hn, props,
        "real compress() at level 0, one Finish call: Done, all input consumed, output = one valid stored stream (reference stored decoder) that decodes to the input, exactly one final block, "
        "only stored blocks; " + ("header valid with CINFO 7, trailer = big-endian Adler-32 of the input, adler32() = reference Adler-32; " if z else "") +
        "size = n+5(+6) <= mz_deflateBound(n); after Done every further call => BadParam (0,0)",
        "%s, %d symbolic input bytes, 24-byte output buffer, nothing stubbed" % ("zlib" if z else "raw", n),
        kind="E", tier=tier, timeout=1800, mem_gb=24, heavy=True, functions=COMP_FUNCS, quick_for=["C01", "C15"])

# ----------------------------------------------------------------- C16 / C18 / C19
add("misc::e_adler_n2_anystart", ["C16"],
    "mz_adler32_oxide(s, d) = RFC 1950 Adler-32 of the concatenation for every valid running value s and 2 bytes; same for every split; empty update is the identity",
    "all s with both halves < 65521, 2 symbolic bytes, 3 splits", kind="E", functions=["shared::update_adler32", "adler2::Adler32::write_slice"])
add("misc::e_adler_n4_splits", ["C16"],
    "Adler-32 of 4 symbolic bytes from the initial value equals the definition for one pass and every split point (exercises the 4-lane path of adler2)",
    "4 symbolic bytes, start value 1, 4 splits", kind="E", tier="thorough", timeout=1800, functions=["shared::update_adler32", "adler2::Adler32::write_slice"])
add("misc::l_decomp_clone_regs", ["C19"],
    "clone() of an arbitrary decoder equals the original on every scalar register and on any entry of the code-length scratch array",
    "decoder fully symbolic (all arrays), index universally quantified", kind="L", tier="quick", timeout=600, mem_gb=16, functions=["DecompressorOxide::clone"])
add("misc::l_decomp_clone_arrays", ["C19"],
    "clone() copies every entry of the three lookup tables, trees and the three code-size arrays",
    "decoder fully symbolic, five universally quantified indices", kind="L", tier="thorough", timeout=3600, mem_gb=24, heavy=True, functions=["DecompressorOxide::clone"])
add("misc::l_block_boundary_roundtrip", ["C19"],
    "at a block boundary (ReadBlockHeader, < 8 pending bits) block_boundary_state() is Some with num_bits < 8 and from_block_boundary_state() rebuilds state, pending bits, "
    "zlib header bytes and running checksum; in every other automaton state it is None",
    "decoder fully symbolic under the boundary invariant; all other 34 state ids", kind="L",
    functions=["DecompressorOxide::block_boundary_state", "from_block_boundary_state"])
add("misc::w_inflate_reset_policies", ["C18"],
    "MinReset / ZeroReset / FullReset from an arbitrary wrapper state (any offsets, flags, last status incl. failures, decoder mid-stream): protocol fields equal a fresh "
    "InflateState's, decoder back in Start; Zero/Full clear the window, Full installs the new format; MinReset keeps the window (documented)",
    "all wrapper fields symbolic; window probed at 3 fixed positions (first, middle, last byte)", kind="W", tier="thorough", timeout=2400, mem_gb=30, heavy=True,
    functions=["MinReset::reset", "ZeroReset::reset", "FullReset::reset", "InflateState::reset", "reset_as", "DecompressorOxide::init"])
add("misc::w_inflate_state_clone", ["C19"],
    "clone() of an arbitrary streaming-inflate state copies the protocol fields, decoder registers and window",
    "all wrapper fields symbolic; window probed at 3 fixed positions", kind="W", tier="thorough", timeout=3600, mem_gb=30, heavy=True, functions=["InflateState::clone"])

# ----------------------------------------------------------------- U tier copy kernels
for (hn, cl) in [("u_apply_match_flat", "apply_match (flat buffer) = byte-by-byte LZ77 copy incl. overlap, distance-1 run and length-3 path; no byte outside [out_pos, out_pos+len) changes"),
                 ("u_transfer_flat", "transfer as WriteLenBytesToEnd calls it (flat) = LZ77 copy of 1..9 bytes; frame condition"),
                 ("u_copy_ring", "apply_match / transfer with a 16-byte ring (source wraps, destination does not) = LZ77 copy with ring-window semantics; frame condition")]:
    add("unit::" + hn, ["C03", "C08"], cl,
        "16-byte buffer with symbolic contents, every out_pos, every distance allowed by the call sites, length <= 9; index of the compared byte universally quantified",
        kind="U", tier="quick" if hn != "u_copy_ring" else "thorough", timeout=1200, mem_gb=16, functions=["inflate::core::apply_match", "inflate::core::transfer"])

# ----------------------------------------------------------------- S tier
CUT_STUBS_R = ["init_tree -> mzcore :: verif :: cut_init_tree", "decode_huffman_code -> mzcore :: verif :: cut_decode_huffman_code", "decompress_fast -> mzcore :: verif :: cut_decompress_fast"]
TERMINALS = ["s_done_forever", "s_block_type_unexpected", "s_bad_code_size_sum", "s_bad_dist_or_literal_table_length", "s_bad_total_symbols",
             "s_bad_zlib_header", "s_distance_out_of_bounds", "s_bad_raw_length", "s_bad_code_size_dist_prev_lookup", "s_invalid_litlen", "s_invalid_dist"]
for i, hn in enumerate(TERMINALS):
    add("steps::" + hn, ["C04", "C05"] + (["C13"] if i == 0 else []),
        "one real decode call from the injected terminal state: " + ("Done (or Adler32Mismatch iff a checked zlib trailer differs) " if i == 0 else "Failed ") +
        "with (0,0), registers and output buffer untouched - for any registers/tables, input, flags, out_pos and budget (failure is absorbing)",
        "decoder fully symbolic under the invariant num_bits <= 61, bit_buf < 2^num_bits, check_adler32 a valid Adler value; input 0..=3 bytes; all 2^8 flag sets; 4-byte buffer, any out_pos <= 4, any budget",
        kind="S", tier="quick" if i in (0, 3, 7, 9) else "thorough", timeout=600, functions=["inflate::core::decompress_with_limit (terminal arm, epilogue)"],
        assumes=["representation invariant of reachable decoders: num_bits <= 61, bit_buf < 2^num_bits, running checksum is a valid Adler-32 value"])
for hn in ["s_bad_param_start_l0", "s_bad_param_start_l3", "s_bad_param_block_header_l5", "s_bad_param_raw_memcpy_l6", "s_bad_param_decode_litlen_l7",
           "s_bad_param_match_copy_l3", "s_bad_param_match_copy_l8", "s_bad_param_done_l4", "s_bad_param_failed_l1"]:
    add("steps::" + hn, ["C05"],
        "unusable buffer geometry (ring length not a power of two, or out_pos > length) => BadParam (0,0) with every decoder register and every buffer byte untouched, from the injected automaton state",
        "slice length %s (concrete), out_pos and budget arbitrary usize, all 2^8 flag sets, decoder fully symbolic, geometry assumed bad" % hn[-1],
        kind="S", tier="quick" if hn in ("s_bad_param_raw_memcpy_l6", "s_bad_param_decode_litlen_l7", "s_bad_param_failed_l1", "s_bad_param_done_l4") else "thorough",
        timeout=1500, mem_gb=12 if hn in ("s_bad_param_raw_memcpy_l6", "s_bad_param_decode_litlen_l7", "s_bad_param_failed_l1", "s_bad_param_done_l4") else 30,
        heavy=hn not in ("s_bad_param_raw_memcpy_l6", "s_bad_param_decode_litlen_l7", "s_bad_param_failed_l1", "s_bad_param_done_l4"),
        functions=["inflate::core::decompress_with_limit (parameter check)"], stubs=CUT_STUBS_R)

for (hn, tier, desc) in [("w_inflate_c_none_2_2", "thorough", "flush None, 2 input bytes, 2 output bytes"), ("w_inflate_c_finish_2_1", "thorough", "first-call Finish, 2 input bytes, 1 output byte"),
                         ("w_inflate_c_sync_0_2", "thorough", "flush Sync, empty input, 2 output bytes")]:
    add("wrap_inflate::" + hn, ["C13"],
        "real inflate(), first call, any core behaviour within D1-D7 (" + desc + "): counts <= offered; delivered bytes = next plaintext bytes; StreamEnd <=> core done and all delivered; "
        "progress; Full => Stream error with nothing changed; format -> decoder flags (zlib parsed iff zlib formats, checksum ignored iff not Zlib, HAS_MORE_INPUT iff not Finish)",
        "3 data formats (symbolic), sizes/flush fixed as named, core produces <= 2 bytes", kind="W", tier=tier, timeout=1800, mem_gb=30, heavy=True,
        functions=INFL_FUNCS, stubs=[DSTUB], assumes=D_ASSUME, stubs_change_behaviour=True)
for (hn, props, huge, desc) in [("e_comp0_sync_raw_1_1", ["C12", "C02"], False, "raw, 1 byte + Sync, then 1 byte + Finish"),
                                ("e_comp0_full_zlib_1_1", ["C12"], True, "zlib, 1 byte + Full, then 1 byte + Finish"),
                                ("e_comp0_sync_zlib_0_1", ["C09"], True, "zlib, Sync before any input, then 1 byte + Finish"),
                                ("e_comp0_none_then_finish_raw_2_0", ["C02", "C14"], False, "raw, 2 bytes with no flush, then Finish")]:
    add("e_comp::" + hn, props,
        "real compress() at level 0, two calls (" + desc + "): after the flush call (all input consumed, space to spare) the bytes so far decode with an independent stored decoder to "
        "all input so far; Sync/Full end with 00 00 FF FF on a byte boundary, unwritten_bit_count() = 0; running Adler = Adler-32 of consumed input; the second call completes ONE stream "
        "(header once, exactly one final block) that decodes to the whole input; counts within offered buffers",
        "symbolic input bytes, 40-byte output buffer, nothing stubbed", kind="E", tier="thorough", timeout=2400, mem_gb=30, heavy=True, huge=huge, functions=COMP_FUNCS)

MARKERS = ["compress_fast -> dcore :: verif :: mark_compress_fast", "compress_normal -> dcore :: verif :: mark_compress_normal",
           "compress_stored -> dcore :: verif :: mark_compress_stored", "flush_block -> dcore :: verif :: mark_flush_block"]
for (hn, tier, desc) in [("w_compress_drain_r2_o1", "quick", "2 bytes pending, 1 byte of output space"), ("w_compress_drain_r2_o4", "quick", "2 bytes pending, 4 bytes of space"),
                         ("w_compress_drain_r0_o4", "thorough", "nothing pending (finished stream or refused call)"), ("w_compress_drain_r3_o3", "thorough", "3 bytes pending, exact fit")]:
    add("wrap_deflate::" + hn, ["C02", "C14"],
        "real compress()/compress_inner prologue from a compressor whose scalar state is arbitrary (" + desc + "): a previous non-Okay status or a non-Finish request after Finish => "
        "BadParam (0,0), nothing touched, no back end run; otherwise pending output is delivered first: no back end, no input consumed, exactly min(space, pending) bytes of the "
        "internal buffer copied in order, cursors advanced; Done <=> stream finished and nothing left; the remembered status always equals the returned one",
        "level 0..2, zlib; previous flush / finished flag / previous status / new flush (8 modes) / input length 0..2 symbolic; pending bytes symbolic",
        kind="W", tier=tier, timeout=900, mem_gb=16, functions=["deflate::core::compress", "compress_inner", "flush_output_buffer"], stubs=MARKERS,
        assumes=["back ends and flush_block are marker stubs (not reached on these paths)"])
add("wrap_deflate::w_compress_tail", ["C12", "C02"],
    "real compress_inner epilogue: with nothing pending and an empty look-ahead a flush request runs the final flush_block exactly once (never for flush None or while look-ahead remains); "
    "Finish marks the stream finished (Done); a Full flush cuts history: dictionary size 0 and every hash-chain head/link cleared (universally quantified index); every other mode keeps the dictionary size",
    "levels 1..2, raw; dictionary size 0..=32768 and look-ahead 0..=2 symbolic, all 8 flush modes; back ends / flush_block marker stubs; slice::fill modelled as whole-array assignment",
    kind="W", timeout=900, mem_gb=16, functions=["deflate::core::compress", "compress_inner", "flush_output_buffer"],
    stubs=MARKERS + ["fill -> fill_model"], assumes=["<[T]>::fill on the 32 K-element arrays = whole-array assignment (model stub)"])
for (hn, tier, desc) in [("w_inflate_c2_finish_finish", "thorough", "Finish(2 in,1 out) then Finish(1 in,2 out)"), ("w_inflate_c2_none_none", "thorough", "None(1,1) then None(1,2)"),
                         ("w_inflate_c2_none_finish", "thorough", "None(2,1) then Finish(0,2)")]:
    add("wrap_inflate::" + hn, ["C13"],
        "real inflate(), two calls (" + desc + "), any core behaviour within D1-D7: all per-call clauses plus the history-dependent ones: data errors and the Finish buffer error are sticky, "
        "pending window bytes are delivered before decoding more, stream-end is stable, and the core is always handed a buffer that still holds the plaintext it produced so far "
        "(window integrity: a first-call Finish that ran out of space must not be resumed on the internal window)",
        "3 data formats symbolic; sizes and flush values concrete as named; core produces <= 2 bytes per call", kind="W", tier=tier, timeout=2400, mem_gb=40, heavy=True,
        functions=INFL_FUNCS, stubs=[DSTUB], assumes=D_ASSUME, stubs_change_behaviour=True)

for (hn, tier, desc) in [("w_inflate_step_early_ofs0", "thorough", "window offset 0"), ("w_inflate_step_early_wrap", "thorough", "window offset 32766 (hand-off wraps at 32 KiB)")]:
    add("wrap_inflate::" + hn, ["C13"],
        "inductive step of the real inflate() for every branch that must not reach the core, from an ARBITRARY wrapper state (" + desc + "): Full => stream error, state untouched; failed stream => "
        "sticky Data error (Buf after a truncated Finish), nothing consumed/written; non-Finish after Finish => stream error; pending window bytes handed out first, in order, "
        "min(pending, space) of them, ring offset advanced modulo 32768; stream-end exactly when the decoder was done and nothing stays pending; the core is never called",
        "all protocol fields symbolic (flags, last status -4..2, format), pending 0..=2 symbolic bytes, input 0..=2, output 0..=3, 4 flush values; invariant: fresh state has nothing pending, pending bytes inside the ring",
        kind="W", tier=tier, timeout=2400, mem_gb=30, heavy=True, functions=INFL_FUNCS, stubs=[DSTUB],
        assumes=["wrapper invariant: first_call => nothing pending and not flushed; dict_ofs + dict_avail <= 32768"], stubs_change_behaviour=True)

add("wrap_inflate::w_inflate_step_full", ["C13"],
    "inductive step of the real inflate() from an ARBITRARY wrapper state for a full-flush request: stream error, nothing consumed or written, every protocol field and the output untouched, the core never called",
    "all protocol fields symbolic (first_call, has_flushed, last status -4..2, format, window offset < 32768, pending count), input 0..=2, output 0..=3",
    kind="W", timeout=600, mem_gb=16, functions=INFL_FUNCS, stubs=[DSTUB], stubs_change_behaviour=True)
add("wrap_deflate::w_compress_tail_zlib", ["C12", "C02"],
    "as w_compress_tail for a zlib compressor at levels 2..4 (lazy parsing back end): final flush_block exactly for a flush request with empty look-ahead; Finish => finished; Full => dictionary size 0, hash chains cleared",
    "levels 2..4, zlib; dictionary size 0..=32768 and look-ahead 0..=2 symbolic, all 8 flush modes", kind="W", timeout=900, mem_gb=16,
    functions=["deflate::core::compress", "compress_inner", "flush_output_buffer"], stubs=MARKERS + ["fill -> fill_model"],
    assumes=["<[T]>::fill on the 32 K-element arrays = whole-array assignment (model stub)"])

add("capi::w_tinfl_decompress", ["C17"],
    "real extern \"C\" tinfl_decompress: the output window is rebuilt as (start, next - start + remaining) with out_pos = next - start, the input as (in_buf, *in_buf_size); the core sees exactly "
    "those ranges and the flags unchanged; status, consumed and produced counts are written back unchanged; every access stays inside the caller's objects (CBMC pointer checks)",
    "input 0..=3 bytes, window position 0..=6 and remaining room 0..=6-pos (symbolic), all flag words, core = any result within D1", kind="W", timeout=600,
    functions=["tinfl_decompress"], stubs=["decompress -> decompress_recording"], stubs_change_behaviour=True,
    assumes=["core decompress stays within the slices it is given (D1/D5)"])
add("capi::w_mz_checksum_wrappers", ["C16", "C17"],
    "mz_adler32 / mz_crc32: null pointer => initial value whatever the length; otherwise the Rust function on exactly (ptr, len) from the low 32 bits of the running value; result fits 32 bits",
    "running value arbitrary u64 (valid Adler halves), 2 symbolic bytes, zero-length case", kind="W", timeout=600,
    functions=["mz_adler32", "mz_crc32", "mz_adler32_oxide"])

add("wrap_deflate::w_compressor_reset", ["C18"],
    "CompressorOxide::reset() from a compressor whose every scalar and every array is arbitrary (any prior history: mid-block, pending output, saved lazy match, error status, "
    "arbitrary hash chains and window) leaves all 28 scalars equal to CompressorOxide::new(flags) and every entry of the hash/next/dictionary/LZ-code/output/Huffman arrays zero "
    "(universally quantified indices); settings are kept",
    "levels 0..=10 x raw/zlib x 5 strategies; 300 KB of state symbolic; slice::fill modelled as whole-array assignment", kind="W", tier="quick", timeout=1200, mem_gb=40, heavy=True,
    functions=["CompressorOxide::reset", "ParamsOxide::reset", "DictOxide::reset", "HashBuffers::reset", "LZOxide::new", "HuffmanOxide::default"],
    stubs=["fill -> fill_model"], assumes=["<[T]>::fill on the 32 K-element arrays = whole-array assignment (model stub)"],
    replay=dict(kind="native", vals=[], cmd=["reset-check"], sig=lambda env: "reset-leaves-stale-state"))

# init_tree rejection rules and the code-length run check (written in the extension round; none finished in 800 s: experimental)
for hn, cl in (("s_init_tree_hufflen_reject", "code-length code (19 symbols, 3-bit lengths): init_tree starts building tables only for complete, not over-subscribed sets; every other set ends in BadTotalSymbols"),
               ("s_init_tree_dist_reject", "distance code (30 symbols, lengths 0..15): accepted iff complete or at most one 1-bit code / empty; otherwise BadTotalSymbols"),
               ("s_code_length_run_overshoot", "a repeat code 16/17/18 whose run passes HLIT+HDIST ends in BadCodeSizeSum (Failed), from the injected state ReadExtraBitsCodeSize")):
    add("steps::" + hn, ["C04"], cl, "all code-length sets of that size (symbolic); table building cut at its first reverse_bits call", kind="S", tier="experimental", timeout=1800,
        functions=["inflate::core::init_tree (counting, over-subscription and completeness checks)"], stubs=["reverse_bits -> reverse_bits_probe", "< [i16] > :: fill -> fill_model_tables"])


# Harnesses that exist in the crate but do not fit this machine (resource failure or > 1 h); they are
# never selected by ./check and are not part of any claim (DESIGN.md 3.2).
EXPERIMENTAL = {
    "wrap_inflate::w_vec_limit", "wrap_deflate::w_compress_to_vec", "misc::w_inflate_reset_policies", "misc::w_inflate_state_clone",
    "wrap_inflate::w_inflate_c2_finish_finish", "wrap_inflate::w_inflate_c2_none_none", "wrap_inflate::w_inflate_c2_none_finish",
    "steps::s_bad_param_block_header_l5", "wrap_inflate::w_inflate_format_flags", "wrap_inflate::w_inflate_c_sync_0_2",
    "e_comp::e_comp0_full_zlib_1_1",   # Full flush runs the real 32 K-element fill loops: unwinding failure after 1640 s
    "e_comp::e_comp0_sync_zlib_0_1",   # resource failure after 940 s even when run alone
}


def all_harnesses():
    gen = os.path.join(VERIF, "kani", "src", "gen", "registry.json")
    for h in H:
        if h["name"] in EXPERIMENTAL:
            h["tier"] = "experimental"
        if h["name"].startswith("wrap_inflate::w_inflate_") and h["name"] != "wrap_inflate::w_inflate_step_full":
            h["huge"] = True
    out = list(H)
    if os.path.exists(gen):
        out += json.load(open(gen))
    return out
