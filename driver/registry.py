"""Harness registry: which Kani harness decides which clause of which property, with its bound."""
import json, os

VERIF = os.path.dirname(os.path.dirname(os.path.abspath(__file__)))

H = []

def add(name, props, clause, bound, kind="L", tier="quick", timeout=300, **kw):
    d = dict(name=name, props=props, clause=clause, bound=bound, kind=kind, tier=tier, timeout=timeout)
    d.update(kw)
    H.append(d)

# ----------------------------------------------------------------- L tier (leaf kernels, exact)
add("leaf::l_zlib_header_accept", ["C04", "C09"],
    "validate_zlib_header accepts exactly the RFC 1950 headers (CM=8, CINFO<=7, FDICT=0, FCHECK) whose window fits the ring",
    "all cmf,flg in u8 x all flag words u32 x ring sizes 2^0..2^20 (exact)",
    functions=["inflate::core::validate_zlib_header"])
add("leaf::l_undo_bytes", ["C06"],
    "undo_bytes returns min(num_bits/8, max) whole bytes and leaves the remaining bits",
    "all num_bits <= 64, all max: u32 (exact)", functions=["inflate::core::undo_bytes"])
add("leaf::l_state_ids", ["C03", "C04", "C07"],
    "hook sanity: automaton state ids used by injected-state harnesses are the enum's own discriminants; is_failure <=> id >= 25",
    "all u8 ids (exact)", functions=["inflate::core::State", "verif::state_from_id"])
add("leaf::l_inflate_rfc_tables", ["C03"],
    "LENGTH_BASE/LENGTH_EXTRA/DIST_BASE/num_extra_bits_for_distance_code equal RFC 1951 3.2.5 for every symbol; filler entries >= 259",
    "all 29 length symbols, all 30 distance symbols (exact)",
    functions=["inflate::core::LENGTH_BASE", "LENGTH_EXTRA", "DIST_BASE", "num_extra_bits_for_distance_code"])
add("leaf::l_header_from_flags", ["C09", "C11"],
    "emitted zlib header is RFC 1950-valid, CINFO = max(w,8)-8, and the crate's own validator accepts it (flat, and ring = declared window)",
    "all flag words u32 x window_bits 0..=15 (exact)",
    functions=["deflate::zlib::header_from_flags", "add_fcheck", "zlib_level_from_flags", "inflate::core::validate_zlib_header"])
add("leaf::l_comp_flags", ["C01", "C10"],
    "create_comp_flags_from_zip_params: no panic; level>10 == 10; level<0 == 6; level 0 => raw-blocks flag; strategy -> exactly its flag; zlib flag iff window_bits>0",
    "all (level, window_bits, strategy) in i32^3 and all u8 levels as the one-shot API passes them (exact)",
    functions=["deflate::core::create_comp_flags_from_zip_params"])
add("leaf::l_outbuf_geometry", ["C05", "C08"],
    "OutputBuffer: max = min(pos+budget, len) with saturating add, bytes_left = max-pos, never above the budget",
    "slice len 0..=8, all pos <= len, all budgets in usize (exact in pos/budget)",
    functions=["inflate::output_buffer::OutputBuffer::from_slice_pos_and_max", "bytes_left"])
add("leaf::l_emit_one_match", ["C10"],
    "for every match the real record_match + compress_lz_codes emit the RFC 1951 length symbol/extra bits and distance symbol/extra bits, then EOB; frequency tables count exactly those symbols",
    "all len 3..=258 x all dist 1..=32768 (exact), identity Huffman code supplied by the hook",
    functions=["deflate::core::record_match", "compress_lz_codes", "LEN_SYM", "LEN_EXTRA", "SMALL_DIST_SYM", "SMALL_DIST_EXTRA", "LARGE_DIST_SYM", "LARGE_DIST_EXTRA", "BitBuffer::put_fast", "BitBuffer::flush", "OutputBufferOxide::put_bits"],
    timeout=600)

# ----------------------------------------------------------------- W tier, compressor side
def _route_args(env):
    env = dict(env)
    env["fmt_s"] = "zlib" if env.get("fmt", 0) == 1 else "raw"
    return env

def _route_sig(env):
    lvl = min(env.get("level", 0), 10)
    w = min(env.get("wb", 0), 15)
    strat = env.get("strat", 0)
    if lvl != 0 and (strat == 3 or (w < 12 and strat != 2)):
        return "rle-flag-not-routed-to-compress_normal"
    return "other-routing"

_ROUTE_COMMON = dict(
    kind="W", timeout=600, mem_gb=16,
    functions=["deflate::core::CompressorOxide::with_params", "limit_level_by_window_bits", "create_comp_flags_from_zip_params",
               "compress", "compress_inner", "flush_output_buffer", "ParamsOxide::new", "DictOxide::new"],
    stubs=["compress_fast -> dcore :: verif :: mark_compress_fast", "compress_normal -> dcore :: verif :: mark_compress_normal",
           "compress_stored -> dcore :: verif :: mark_compress_stored", "flush_block -> dcore :: verif :: mark_flush_block"],
    assumes=["the three back ends behave as their names say once selected (decided separately where a harness reaches them)"],
    replay=dict(kind="native", vals=["fmt", "level", "strat", "wb"], map=_route_args,
                cmd=["route", "{fmt_s}", "{level}", "{strat}", "{wb}"], sig=_route_sig))
_ROUTE_BOUND = "all (format in {raw, zlib}) x level u8 x 5 strategies x window_bits u8 (exact); back ends and flush_block are marker stubs"
add("wrap_deflate::w_routing_c10", ["C10"],
    "settings -> flags (level 0 <=> raw; strategy -> its flag; huffman-only -> 0 probes) and flags -> back end: raw -> compress_stored; "
    "filter -> compress_normal; RLE requested -> compress_normal (the only back end that restricts matches to distance 1); else fast iff one probe and greedy",
    _ROUTE_BOUND, **_ROUTE_COMMON)
add("wrap_deflate::w_routing_c11", ["C11"],
    "zlib with window_bits < 12 (header declares <= 2 KiB): RLE flag is forced (unless huffman-only / level 0) and the RLE-implementing back end is selected; "
    "window_bits < 15 => at most one probe",
    _ROUTE_BOUND, **_ROUTE_COMMON)

# ----------------------------------------------------------------- C ABI shim
CATCH = "catch_unwind -> catch_unwind_identity"
add("capi::l_deflate_bound", ["C15"],
    "mz_deflateBound(n) >= exact size of the level-0 zlib stream for n bytes (n + 6 + 5*(n/31745+1), from stored.rs's block cut rule); "
    "no overflow; equals max of the formula's two arms; mz_compressBound(n) is the same value",
    "all n < 2^32 (exact)", functions=["mz_deflateBound", "mz_compressBound"], timeout=300,
    assumes=["level-0 stream size formula derived from stored.rs (validated against the real compressor for n <= 3 in e_comp and natively in refcheck)"])
add("capi::w_mz_inflate", ["C17", "C06"],
    "real extern \"C\" mz_inflateInit/mz_inflate/mz_inflateEnd: return code = mapped Rust status; next_in/next_out advance = drop in avail_* = rise in total_* "
    "(wrapping), never beyond what was available; flush outside 0..=4 => MZ_PARAM_ERROR with nothing moved; partial flush treated as sync; "
    "every access stays inside the declared (ptr, avail) ranges (CBMC pointer checks, buffers end at their object's end)",
    "avail_in, avail_out in 0..=3 (symbolic), totals arbitrary u64, flush arbitrary i32, inner inflate() = any result within the offered buffers",
    kind="W", timeout=600, functions=["mz_inflateInit", "mz_inflateInit2", "mz_inflate", "mz_inflateEnd", "oxidize!", "StreamOxide::try_new",
                                      "StreamOxide::into_mz_stream", "mz_inflate_oxide", "mz_inflate_init2_oxide", "MZFlush::new", "as_c_return_code"],
    stubs=[CATCH, "inflate -> inflate_contract"], stubs_change_behaviour=True,
    assumes=["inner inflate() stays within its slices (decided for the real inflate() by the C13 harnesses under D1)", "catch_unwind is the identity (panic=abort model; panics are reported as failures)"])
add("capi::w_mz_misuse", ["C17"],
    "misuse expressible in C returns an error code, no panic: null stream for every entry point => MZ_STREAM_ERROR; mz_deflateInit2 succeeds iff method=8, "
    "mem_level in 1..=9, window_bits = +-15, else MZ_PARAM_ERROR with no state; mz_inflateInit2 iff window_bits = +-15; stream of the other kind / never "
    "initialised => MZ_PARAM_ERROR; missing buffers => MZ_STREAM_ERROR with state kept",
    "all (flush, level, method, window_bits, mem_level, strategy) in i32^6 (exact)",
    kind="W", timeout=900, mem_gb=24,
    functions=["mz_deflateInit2", "mz_inflateInit2", "mz_deflate", "mz_inflate", "mz_deflateEnd", "mz_inflateEnd", "mz_deflateReset", "invalid_window_bits",
               "mz_deflate_init2_oxide", "mz_inflate_init2_oxide", "StreamOxide::try_new"],
    stubs=[CATCH], assumes=["catch_unwind is the identity (panic=abort model; panics are reported as failures)"],
    replay=dict(kind="native", signed=True, vals=["flush", "level", "method", "wbits", "mem", "strat"],
                cmd=["capi-init", "{level}", "{method}", "{wbits}", "{mem}", "{strat}"],
                sig=lambda env: "init-window-bits-negation-overflow" if env.get("wbits") == -2**31 else "other-init-misuse"))


def all_harnesses():
    gen = os.path.join(VERIF, "kani", "src", "gen", "registry.json")
    out = list(H)
    if os.path.exists(gen):
        out += json.load(open(gen))
    return out
